(* mx_conc: runs the extracted concurrent model (Conc/KvsConc.v: step) and the extracted atomic
   specification machine (Conc/Spec.v: sstep) over recorded traces.
   stdin: cases, each
     init S0 M0 T0 [unrepaired]
     <one label per line>          (or `reopen FID FSZ S0 M0 T0`: process exit + open on the same directory,
                                    with the counters the new process reported)
     end
   stdout, one line per case:
     ACCEPT <n labels> vis=<..> seq=<..> memseq=<..> db=<number of committed batches>
     REJECT <index> <label text>          (the implementation machine does not accept the label)
     SPECREJECT <index> <label text>      (accepted by the model, refused by the atomic store)
     ASSERT <index> <label text> [what]   (a scalar the store reported at that hook differs from the model's)
   labels (T = thread id >= 0, keys and values are non-negative integers, key k is the byte string
   "k%04d" so that the model orders keys as the store does):
     invw T k=v,k=~,... | invw T -      wlock T  wlink T I  wassign T S  wpick T 0|1  wunlock T  wlog T
     winsert T  wdrop T  wlock2 T  whead T 0|1  wwake T  wpublish T S  wunlink T  wret T
     wfail T  wlockf T  wunlinkf T  wretf T   (a write the log refused)
     invget T K   invscan T LO HI  (- = unbounded)   snap T TS   rmem T 0|1  rimm T 0|1  rtree T 0|1
     retget T none|tomb|absent|V   (rtree T ? and retget T absent: see `alternatives`)   scannext T none | scannext T K V   retscan T
     flock fwait frollover flink I fhead 0|1 fwake funlink funlock fseal finstall ID SZ flock2 fclear trigger *)
open Gen_conc

let rec pos_of_int (i : int) : positive =
  if i = 1 then XH else if i land 1 = 0 then XO (pos_of_int (i lsr 1)) else XI (pos_of_int (i lsr 1))
let n_of_int (i : int) : n = if i = 0 then N0 else Npos (pos_of_int i)
let rec int_of_pos = function XH -> 1 | XO p -> 2 * int_of_pos p | XI p -> 2 * int_of_pos p + 1
let int_of_n = function N0 -> 0 | Npos p -> int_of_pos p
let rec nat_of_int i = if i = 0 then O else S (nat_of_int (i - 1))

let tid_of s = pos_of_int (int_of_string s + 1)
let key_of_int (k : int) : n list =
  let s = Printf.sprintf "k%04d" k in
  List.init (String.length s) (fun i -> n_of_int (Char.code s.[i]))
let key_of s = key_of_int (int_of_string s)
let okey_of s = if s = "-" then None else Some (key_of s)
let val_of s : n list = [n_of_int (int_of_string s)]
let bool_of s = s = "1"

let batch_of (s : string) =
  if s = "-" then []
  else
    List.map (fun kv ->
      match String.split_on_char '=' kv with
      | [k; "~"] -> (key_of k, None)
      | [k; v] -> (key_of k, Some (val_of v))
      | _ -> failwith ("bad batch entry " ^ kv))
      (String.split_on_char ',' s)

(* Canonicalisation: the real tree may have garbage-collected a tombstone that nothing older lies
   under (C05), after which the key reads as "not found" instead of "tombstone"; the model's tree
   is never compacted.  `rtree T ?` and `retget T absent` stand for either reading of a deleted
   key: the alternatives are tried in turn. *)
let alternatives (line : string) : string list =
  match String.split_on_char ' ' (String.trim line) |> List.filter (fun x -> x <> "") with
  | ["rtree"; t; "?"] -> ["rtree " ^ t ^ " 0"; "rtree " ^ t ^ " 1"]
  | ["retget"; t; "absent"] -> ["retget " ^ t ^ " none"; "retget " ^ t ^ " tomb"]
  | _ -> [line]

(* `@name=value` tokens at the end of a label line are assertions about the model state AFTER the step:
   the scalars the real store reported at that hook (mem_seq_no, seq_no, imm_trigger, has_imm). *)
let split_asserts (line : string) : string * (string * int) list =
  let toks = String.split_on_char ' ' (String.trim line) |> List.filter (fun x -> x <> "") in
  let lab = List.filter (fun x -> x.[0] <> '@') toks in
  let asserts = List.filter_map (fun x ->
    if x.[0] = '@' then
      match String.split_on_char '=' (String.sub x 1 (String.length x - 1)) with
      | [k; v] -> Some (k, int_of_string v)
      | _ -> failwith ("bad assertion " ^ x)
    else None) toks in
  (String.concat " " lab, asserts)

let check_assert st (k, v) : string option =
  let got = match k with
    | "memseq" -> int_of_n (k_memseq st)
    | "seq" -> int_of_n (k_seq st)
    | "trig" -> int_of_n (k_trig st)
    | "vis" -> int_of_n (k_vis st)
    | "imm" -> (match k_imm st with Some _ -> 1 | None -> 0)
    | _ -> failwith ("unknown assertion " ^ k) in
  if got = v then None else Some (Printf.sprintf "%s: store %d, model %d" k v got)

let parse_label (line : string) : label =
  match String.split_on_char ' ' (String.trim line) |> List.filter (fun x -> x <> "") with
  | ["invw"; t; b] -> LInvW (tid_of t, batch_of b)
  | ["wlock"; t] -> LWLock (tid_of t)
  | ["wlink"; t; i] -> LWLink (tid_of t, nat_of_int (int_of_string i))
  | ["wassign"; t; s] -> LWAssign (tid_of t, n_of_int (int_of_string s))
  | ["wpick"; t; f] -> LWPick (tid_of t, bool_of f)
  | ["wunlock"; t] -> LWUnlock (tid_of t)
  | ["wlog"; t] -> LWLog (tid_of t)
  | ["winsert"; t] -> LWInsert (tid_of t)
  | ["wdrop"; t] -> LWDrop (tid_of t)
  | ["wlock2"; t] -> LWLock2 (tid_of t)
  | ["whead"; t; h] -> LWHead (tid_of t, bool_of h)
  | ["wwake"; t] -> LWWake (tid_of t)
  | ["wpublish"; t; s] -> LWPublish (tid_of t, n_of_int (int_of_string s))
  | ["wunlink"; t] -> LWUnlink (tid_of t)
  | ["wret"; t] -> LWRet (tid_of t)
  | ["wfail"; t] -> LWFail (tid_of t)
  | ["wlockf"; t] -> LWLockF (tid_of t)
  | ["wunlinkf"; t] -> LWUnlinkF (tid_of t)
  | ["wretf"; t] -> LWRetF (tid_of t)
  | ["invget"; t; k] -> LInvR (tid_of t, QGet (key_of k))
  | ["invscan"; t; lo; hi] -> LInvR (tid_of t, QScan (okey_of lo, okey_of hi))
  | ["snap"; t; ts] -> LSnap (tid_of t, n_of_int (int_of_string ts))
  | ["rmem"; t; h] -> LRMem (tid_of t, bool_of h)
  | ["rimm"; t; h] -> LRImm (tid_of t, bool_of h)
  | ["rtree"; t; h] -> LRTree (tid_of t, bool_of h)
  | ["retget"; t; "none"] -> LRetGet (tid_of t, None)
  | ["retget"; t; "tomb"] -> LRetGet (tid_of t, Some None)
  | ["retget"; t; v] -> LRetGet (tid_of t, Some (Some (val_of v)))
  | ["scannext"; t; "none"] -> LScanNext (tid_of t, None)
  | ["scannext"; t; k; v] -> LScanNext (tid_of t, Some (key_of k, val_of v))
  | ["retscan"; t] -> LRetScan (tid_of t)
  | ["flock"] -> LFLock
  | ["fwait"] -> LFWait
  | ["frollover"] -> LFRollover
  | ["flink"; i] -> LFLink (nat_of_int (int_of_string i))
  | ["fhead"; h] -> LFHead (bool_of h)
  | ["fwake"] -> LFWake
  | ["funlink"] -> LFUnlink
  | ["funlock"] -> LFUnlock
  | ["fseal"] -> LFSeal
  | ["finstall"; id; sz] -> LFInstall (n_of_int (int_of_string id), n_of_int (int_of_string sz))
  | ["flock2"] -> LFLock2
  | ["fclear"] -> LFClear
  | ["trigger"] -> LTrigger
  | _ -> failwith ("bad label: " ^ line)

let () =
  try
    while true do
      let line = String.trim (input_line stdin) in
      if line <> "" then begin
        match String.split_on_char ' ' line |> List.filter (fun x -> x <> "") with
        | "init" :: s0 :: m0 :: t0 :: rest ->
            let unrepaired = rest = ["unrepaired"] in
            let stepf = if unrepaired then step_unrepaired else step in
            let st = ref (init (n_of_int (int_of_string s0)) (n_of_int (int_of_string m0)) (n_of_int (int_of_string t0))) in
            let sp = ref sinit in
            let idx = ref 0 in
            let verdict = ref None in
            (try
              while true do
                let l = String.trim (input_line stdin) in
                if l = "end" then raise Exit;
                if l <> "" && !verdict = None && String.length l > 7 && String.sub l 0 7 = "reopen " then begin
                  (* process exit + open on the same directory: reopen FID FSZ S0 M0 T0 *)
                  (match String.split_on_char ' ' l |> List.filter (fun x -> x <> "") with
                   | [_; fid; fsz; s0; m0; t0] ->
                       let f x = n_of_int (int_of_string x) in
                       (match reopen !st (f fid) (f fsz) (f s0) (f m0) (f t0) with
                        | None -> verdict := Some (Printf.sprintf "REJECT %d %s" !idx l)
                        | Some st' -> st := st'; sp := sreopen !sp)
                   | _ -> failwith ("bad reopen: " ^ l));
                  incr idx
                end else
                if l <> "" && !verdict = None then begin
                  let (l, asserts) = split_asserts l in
                  let rec attempt = function
                    | [] -> verdict := Some (Printf.sprintf "REJECT %d %s" !idx l)
                    | a :: rest ->
                        let lab = parse_label a in
                        (match stepf !st lab with
                         | None -> attempt rest
                         | Some st' ->
                             st := st';
                             (match List.filter_map (check_assert st') asserts with
                              | [] -> ()
                              | m :: _ -> if !verdict = None then verdict := Some (Printf.sprintf "ASSERT %d %s [%s]" !idx l m));
                             if not unrepaired then
                               (match sstep !sp lab with
                                | None -> verdict := Some (Printf.sprintf "SPECREJECT %d %s" !idx l)
                                | Some sp' -> sp := sp'))
                  in
                  attempt (alternatives l);
                  incr idx
                end
              done
            with Exit -> ());
            (match !verdict with
             | Some v -> print_endline v
             | None ->
                 Printf.printf "ACCEPT %d vis=%d seq=%d memseq=%d db=%d\n" !idx (int_of_n (k_vis !st)) (int_of_n (k_seq !st))
                   (int_of_n (k_memseq !st)) (List.length !sp.s_db))
        | _ -> failwith ("expected init: " ^ line)
      end
    done
  with End_of_file -> ()
