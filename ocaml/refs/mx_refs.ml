(* mx_refs: runs the extracted Refs model (Refs/Model.v) on commands, one per line, one output line
   per command.  Names are 64 hex digits; numbers are decimal.  Several model instances can be
   kept (command `save k` / `load k`) so that crash points can be explored from one state.
     reset
     open n=x,.. | n=0/1,.. | treemax     EOpen, then the opening thread runs to the end
     openbegin ...(same)                   EOpen only
     step t [k]                            k (default: all) instructions of thread t
     write | move | crash | take r | drop r | dropbegin r
     flush x roll       EFlush + the memtable thread runs to the end     (flushbegin: EFlush only)
     compact [@J] ins | outs | roll hold   ECompact on compaction thread J (default 0) + the thread
                                           runs to the end   (compactbegin: ECompact only); the
                                           thread's id for `step` / `pc` is 2 + 2J
     move [@J]
     vpass ok           EVBegin + EVStep until the pass returns
     vbegin | vstep ok [k] | vcrash
     vkill j            EVBegin (if no pass is running), run the pass up to (excluding) the j-th
                        unlink system call it would issue, then EVCrash; answers whether reached
     obs                the observable state
     pc t               pending instructions of thread t
     save k | load k *)
open Gen_refs

let rec pos_of_z (z : int) : positive =
  if z = 1 then XH else if z land 1 = 0 then XO (pos_of_z (z lsr 1)) else XI (pos_of_z (z lsr 1))
let n_of_int (i : int) : n = if i = 0 then N0 else Npos (pos_of_z i)
let rec int_of_pos = function XH -> 1 | XO p -> 2 * int_of_pos p | XI p -> 2 * int_of_pos p + 1
let int_of_n = function N0 -> 0 | Npos p -> int_of_pos p
let rec int_of_nat = function O -> 0 | S k -> 1 + int_of_nat k

(* big numbers: hex <-> N through bit lists *)
let n_of_hex (s : string) : n =
  let acc = ref N0 in
  String.iter (fun c ->
    let d = int_of_string ("0x" ^ String.make 1 c) in
    acc := N.add (N.mul !acc (n_of_int 16)) (n_of_int d)) s;
  !acc
let hex_of_n (x : n) : string =
  let rec go x acc = match x with
    | N0 -> acc
    | _ -> let (q, r) = N.div_eucl x (n_of_int 16) in go q (Printf.sprintf "%x" (int_of_n r) ^ acc) in
  let h = go x "" in
  String.make (max 0 (64 - String.length h)) '0' ^ h
let n_of_dec (s : string) : n =
  let acc = ref N0 in
  String.iter (fun c -> acc := N.add (N.mul !acc (n_of_int 10)) (n_of_int (Char.code c - 48))) s;
  !acc
let dec_of_n (x : n) : string =
  let rec go x acc = match x with
    | N0 -> acc
    | _ -> let (q, r) = N.div_eucl x (n_of_int 10) in go q (string_of_int (int_of_n r) ^ acc) in
  match x with N0 -> "0" | _ -> go x ""

let split c s = List.filter (fun x -> x <> "") (String.split_on_char c (String.trim s))
let names s = List.map n_of_hex (split ',' s)
let b s = (String.trim s = "1")
let sorted l = List.sort compare l
let join l = String.concat "," l

let show_tent = function TSst x -> hex_of_n x ^ ".sst" | TLog n -> "log." ^ dec_of_n n
let show_edit e =
  "-" ^ join (List.map hex_of_n e.e_rm) ^ "+" ^ join (List.map hex_of_n e.e_add)
  ^ (match e.e_log with Some n -> "@L" ^ dec_of_n n | None -> "")
let show_instr = function
  | ILinkExcl x -> "link:" ^ hex_of_n x | IPinLink x -> "pinlink:" ^ hex_of_n x
  | ICommit (Some e, r) -> "commit:" ^ show_edit e ^ (if r then ":roll" else "") | ICommit (None, _) -> "commit:move"
  | IRelease x -> "release:" ^ hex_of_n x | ITake h -> "take" | IDropSnap h -> "dropsnap"
  | IRenameLog n -> "renamelog:" ^ dec_of_n n
  | IManiOpen -> "maniopen" | IInitEdit -> "initedit" | ILinkIfAbsent x -> "linkifabsent:" ^ hex_of_n x
  | IApplyIfAbsent (x, _) -> "applyifabsent:" ^ hex_of_n x | IFromManifest -> "frommanifest"
  | IOrphans -> "orphans" | IOrphan x -> "orphan:" ^ hex_of_n x | INewLog _ -> "newlog"
let show_vinstr = function
  | VStartEntry n -> "start:" ^ dec_of_n n | VUnlinkFrag n -> "unlinkfrag:" ^ dec_of_n n
  | VUnlinkTrash t -> "unlink:" ^ show_tent t | VClear -> "clear" | VDecide n -> "decide:" ^ dec_of_n n

let obs (s : sys) : string =
  let f = s.s_fs in
  let logs l = join (List.map (fun m -> dec_of_n m.l_num) l) in
  let proc = match s.s_p with
    | None -> "down"
    | Some p ->
        let refs = sorted (List.map (fun (x, c) -> hex_of_n x ^ ":" ^ string_of_int (int_of_nat c)) p.p_refs) in
        let cur = match List.nth_opt p.p_vers (int_of_nat p.p_cur) with Some v -> sorted (List.map hex_of_n v.v_names) | None -> [] in
        Printf.sprintf "up ready=%d refs=%s cur=%s strs=%s seq=%s memseq=%s lognum=%s threads=%s"
          (if p.p_ready then 1 else 0) (join refs) (join cur) (join (sorted (List.map hex_of_n p.p_ms.ms_strs)))
          (dec_of_n p.p_seq) (dec_of_n p.p_memseq) (dec_of_n p.p_lognum)
          (join (List.map (fun (t, l) -> dec_of_n t ^ ":" ^ string_of_int (List.length l)) p.p_pcs)) in
  Printf.sprintf "OBS sst=%s trash=%s logs=%s tlogs=%s frags=%s live=%d mstrs=%s mlog=%s vstrs=%s vm=%s v=%s | %s"
    (join (sorted (List.map hex_of_n f.f_sst))) (join (sorted (List.map hex_of_n f.f_trash)))
    (logs f.f_logs) (join (sorted (List.map (fun m -> dec_of_n m.l_num) f.f_tlogs)))
    (join (List.map (fun (i, _) -> dec_of_n i) f.f_md.md_frags)) (List.length f.f_md.md_live)
    (join (sorted (List.map hex_of_n (live_strs s))))
    (match (frag_state f.f_md.md_live).ms_log with Some n -> dec_of_n n | None -> "-")
    (join (List.map show_tent f.f_vs.vs_strs)) (match f.f_vs.vs_m with Some n -> dec_of_n n | None -> "-")
    (match s.s_v with None -> "idle" | Some pc -> "pc" ^ string_of_int (List.length pc))
    proc

let pc_of t s = match s.s_p with Some p -> pc_get t p | None -> []
let rec run_thread t k s =
  if k = 0 then s else
  match pc_of t s with [] -> s | _ -> run_thread t (k - 1) (step s (EStep t))

let parse_pairs f s = List.map (fun kv -> match String.split_on_char '=' kv with
  | [k; v] -> (n_of_dec k, f v) | _ -> failwith ("bad pair " ^ kv)) (split ',' s)

let parse_open rest =
  match String.split_on_char '|' rest with
  | [a; bb; c] -> EOpen (parse_pairs n_of_hex a, parse_pairs (fun v -> v = "1") bb, n_of_dec (String.trim c))
  | _ -> failwith "bad open"

(* "@J rest" -> (J, rest); default thread 0 *)
let split_thread rest =
  let rest = String.trim rest in
  if String.length rest > 0 && rest.[0] = '@' then
    match String.index_opt rest ' ' with
    | Some i -> (n_of_dec (String.sub rest 1 (i - 1)), String.sub rest (i + 1) (String.length rest - i - 1))
    | None -> (n_of_dec (String.sub rest 1 (String.length rest - 1)), "")
  else (N0, rest)
let t_compact j = N.add (n_of_int 2) (N.mul (n_of_int 2) j)
let t_reader r = N.add (n_of_int 3) (N.mul (n_of_int 2) r)

let parse_compact rest =
  let (j, rest) = split_thread rest in
  match String.split_on_char '|' rest with
  | [i; o; f] -> (match split ' ' f with
                  | [r; h] -> (j, ECompact (j, names i, names o, b r, b h))
                  | _ -> failwith "bad compact flags")
  | _ -> failwith "bad compact"

(* the next instruction of a pass is an unlink that will issue a system call *)
let effective_unlink (s : sys) : bool =
  match s.s_v with
  | Some (VUnlinkFrag n :: _) -> List.exists (fun (i, _) -> i = n) s.s_fs.f_md.md_frags
  | Some (VUnlinkTrash t :: _) -> tent_present s.s_fs t
  | _ -> false

let () =
  let s = ref sys0 in
  let saved : (string, sys) Hashtbl.t = Hashtbl.create 7 in
  try
    while true do
      let line = input_line stdin in
      let line = String.trim line in
      let cmd, rest = match String.index_opt line ' ' with
        | Some i -> String.sub line 0 i, String.sub line (i + 1) (String.length line - i - 1)
        | None -> line, "" in
      let out =
        try
          match cmd with
          | "reset" -> s := sys0; "OK"
          | "open" -> s := step !s (parse_open rest); s := run_thread (n_of_int 0) (-1) !s; obs !s
          | "openbegin" -> s := step !s (parse_open rest); obs !s
          | "step" -> (match split ' ' rest with
                       | [t] -> s := run_thread (n_of_dec t) (-1) !s; obs !s
                       | [t; k] -> s := run_thread (n_of_dec t) (int_of_string k) !s; obs !s
                       | _ -> "BAD")
          | "write" -> s := step !s EWrite; "OK"
          | "move" -> let (j, _) = split_thread rest in s := step !s (EMove j); s := run_thread (t_compact j) (-1) !s; obs !s
          | "crash" -> s := step !s ECrash; obs !s
          | "take" -> let r = n_of_dec rest in s := step !s (ETake r); s := run_thread (t_reader r) (-1) !s; obs !s
          | "drop" -> let r = n_of_dec rest in s := step !s (EDrop r); s := run_thread (t_reader r) (-1) !s; obs !s
          | "dropbegin" -> s := step !s (EDrop (n_of_dec rest)); obs !s
          | "dropfine" ->
              (* reader R lets go, one fine-grained step at a time (ModelLock.fstep with the table
                 lock); when it is inside dec_and's callback for sst X, compaction thread J is
                 offered one step: with the lock it waits (the state does not change) *)
              (match split ' ' rest with
               | [r; x; j] ->
                   let r = n_of_dec r and x = n_of_hex x and tj = t_compact (n_of_dec j) in
                   let ls = ref (fstep true (!s, None) (EDrop r)) in
                   let window = ref "none" and guard = ref 100000 in
                   while pc_of (t_reader r) (fst !ls) <> [] && !guard > 0 do
                     ls := fstep true !ls (EStep (t_reader r));
                     (match snd !ls with
                      | Some (_, y) when y = x && !window = "none" ->
                          let before = !ls in
                          let after = fstep true before (EStep tj) in
                          window := if fst after = fst before then "blocked" else "entered";
                          ls := after
                      | _ -> ());
                     decr guard
                   done;
                   s := fst !ls; "DROPFINE " ^ !window ^ " " ^ obs !s
               | _ -> "BAD")
          | "flush" | "flushbegin" ->
              (match split ' ' rest with
               | [x; r] -> s := step !s (EFlush (n_of_hex x, b r));
                           if cmd = "flush" then s := run_thread (n_of_int 1) (-1) !s; obs !s
               | _ -> "BAD")
          | "compact" | "compactbegin" ->
              let (j, ev) = parse_compact rest in
              s := step !s ev;
              if cmd = "compact" then s := run_thread (t_compact j) (-1) !s; obs !s
          | "vbegin" -> s := step !s EVBegin; obs !s
          | "vstep" -> (match split ' ' rest with
                        | [o] -> s := step !s (EVStep (b o)); obs !s
                        | [o; k] -> for _ = 1 to int_of_string k do s := step !s (EVStep (b o)) done; obs !s
                        | _ -> "BAD")
          | "vcrash" -> s := step !s EVCrash; obs !s
          | "vpass" ->
              s := step !s EVBegin;
              let guard = ref 100000 in
              while !s.s_v <> None && !guard > 0 do s := step !s (EVStep (b rest)); decr guard done;
              obs !s
          | "vkill" ->
              let j = int_of_string rest in
              if !s.s_v = None then s := step !s EVBegin;
              let seen = ref 0 and reached = ref false and guard = ref 100000 in
              while !s.s_v <> None && not !reached && !guard > 0 do
                if effective_unlink !s then begin
                  incr seen;
                  if !seen = j then reached := true
                end;
                if not !reached then s := step !s (EVStep true);
                decr guard
              done;
              let r = !reached in
              s := step !s EVCrash;
              (if r then "KILLED " else "ENDED ") ^ obs !s
          | "vpc" -> (match !s.s_v with None -> "VPC idle" | Some pc -> "VPC " ^ String.concat " " (List.map show_vinstr pc))
          | "pc" -> "PC " ^ String.concat " " (List.map show_instr (pc_of (n_of_dec rest) !s))
          | "obs" -> obs !s
          | "orphans" -> "ORPHANS " ^ join (sorted (List.map hex_of_n (orphan_scan !s.s_fs.f_md)))
          | "save" -> Hashtbl.replace saved rest !s; "OK"
          | "load" -> (match Hashtbl.find_opt saved rest with Some x -> s := x; "OK" | None -> "BAD")
          | _ -> "BAD " ^ cmd
        with Failure m -> "BAD " ^ m in
      print_string out; print_newline ()
    done
  with End_of_file -> ()
