(* mx_log: runs the extracted log model (Log/Model.v) on cases read from stdin, one per line.

   case  :=  opts '|' batches '|' reads
   opts  :=  k=v ...            (only ro=<rollover_size> matters to the model)
   batches := 'raw:' hex        (the file is given directly)
            | batch ';' batch ...      batch := entry ',' entry ...   (may be empty)
   entry :=  'p' bytes '.' ts '.' bytes  |  'd' bytes '.' ts
   bytes :=  '-' | hex | 'g' len 'x' a 'x' b      (byte i = (a + i*b) mod 251)
   reads :=  read ';' read ...   read := [pos '=' val ',' ...] '@' (n | '-')
             (mutations applied to the written file, then truncation to n bytes, then read)

   output:  per batch  acc/tot[:codes]=res:bw  ... '|' 'F len=' n ' d=' fnv64(file)
            '|' per read  'n=' entries ' j=' prefix ' d=' digest ' o=' end|err:code|FUEL
   `j` is the number of successfully appended batches whose entries, concatenated, are exactly
   what was read ('?' if there is no such prefix); the digest is printed only when j = '?' or in
   raw mode. *)
open Gen_log

let rec pos_of_int (i : int) : positive =
  if i = 1 then XH else if i land 1 = 0 then XO (pos_of_int (i lsr 1)) else XI (pos_of_int (i lsr 1))
let n_of_int (i : int) : n = if i = 0 then N0 else Npos (pos_of_int i)
let rec int_of_pos = function XH -> 1 | XO p -> 2 * int_of_pos p | XI p -> 2 * int_of_pos p + 1
let int_of_n = function N0 -> 0 | Npos p -> int_of_pos p

let nbyte : n array = Array.init 256 n_of_int

(* u64 decimal -> n, through Int64 bits *)
let n_of_u64_string (s : string) : n =
  let v = Int64.of_string ("0u" ^ s) in
  let rec go (i : int) : positive option =
    (* bits i..63 as a positive *)
    if i > 63 then None
    else
      let hi = go (i + 1) in
      let bit = Int64.logand (Int64.shift_right_logical v i) 1L = 1L in
      match hi, bit with
      | None, false -> None
      | None, true -> Some XH
      | Some p, false -> Some (XO p)
      | Some p, true -> Some (XI p)
  in
  match go 0 with None -> N0 | Some p -> Npos p

let rec pos_to_int64 = function
  | XH -> 1L
  | XO p -> Int64.shift_left (pos_to_int64 p) 1
  | XI p -> Int64.logor (Int64.shift_left (pos_to_int64 p) 1) 1L
let int64_of_n = function N0 -> 0L | Npos p -> pos_to_int64 p

(* crc32c (Castagnoli), table driven; this is the external function the model is parametric in *)
let crc_table : int array =
  Array.init 256 (fun i ->
      let c = ref i in
      for _ = 0 to 7 do
        if !c land 1 = 1 then c := (!c lsr 1) lxor 0x82F63B78 else c := !c lsr 1
      done;
      !c)
let crc32c (l : n list) : n =
  let c = ref 0xFFFFFFFF in
  List.iter (fun b -> c := crc_table.((!c lxor int_of_n b) land 0xff) lxor (!c lsr 8)) l;
  n_of_int ((!c lxor 0xFFFFFFFF) land 0xFFFFFFFF)

(* FNV-1a 64 *)
let fnv_init = 0xcbf29ce484222325L
let fnv_byte (h : int64) (b : int) : int64 = Int64.mul (Int64.logxor h (Int64.of_int b)) 0x100000001b3L
let fnv_u64 (h : int64) (v : int64) : int64 =
  let h = ref h in
  for i = 0 to 7 do
    h := fnv_byte !h (Int64.to_int (Int64.logand (Int64.shift_right_logical v (8 * i)) 0xffL))
  done;
  !h
let fnv_bytes (h : int64) (l : n list) : int64 = List.fold_left (fun h b -> fnv_byte h (int_of_n b)) h l
let fnv_entries (es : entry list) : int64 =
  List.fold_left
    (fun h e ->
      let h = fnv_byte h (match e.e_val with Some _ -> 80 | None -> 68) in
      let h = fnv_u64 h (Int64.of_int (List.length e.e_key)) in
      let h = fnv_bytes h e.e_key in
      let h = fnv_u64 h (int64_of_n e.e_ts) in
      match e.e_val with
      | Some v -> fnv_bytes (fnv_u64 h (Int64.of_int (List.length v))) v
      | None -> h)
    fnv_init es

let hexval c =
  match c with
  | '0' .. '9' -> Char.code c - 48
  | 'a' .. 'f' -> Char.code c - 87
  | 'A' .. 'F' -> Char.code c - 55
  | _ -> failwith "hex"

let bytes_of_spec (s : string) : n list =
  if s = "-" || s = "" then []
  else if s.[0] = 'g' then begin
    match String.split_on_char 'x' (String.sub s 1 (String.length s - 1)) with
    | [l; a; b] ->
        let l = int_of_string l and a = int_of_string a and b = int_of_string b in
        let r = ref [] in
        for i = l - 1 downto 0 do
          r := nbyte.((a + i * b) mod 251) :: !r
        done;
        !r
    | _ -> failwith "gspec"
  end
  else begin
    let l = String.length s / 2 in
    let r = ref [] in
    for i = l - 1 downto 0 do
      r := nbyte.((16 * hexval s.[2 * i]) + hexval s.[(2 * i) + 1]) :: !r
    done;
    !r
  end

let parse_entry (s : string) : entry =
  let body = String.sub s 1 (String.length s - 1) in
  match s.[0], String.split_on_char '.' body with
  | 'p', [k; ts; v] -> { e_key = bytes_of_spec k; e_ts = n_of_u64_string ts; e_val = Some (bytes_of_spec v) }
  | 'd', [k; ts] -> { e_key = bytes_of_spec k; e_ts = n_of_u64_string ts; e_val = None }
  | _ -> failwith ("bad entry " ^ s)

let err_code = function
  | EEmptyBatch -> "empty-batch"
  | ETableFull -> "table-full"
  | EKeyTooLarge -> "key-too-large"
  | EValueTooLarge -> "value-too-large"
  | ESystem -> "system-error"
  | EHeaderTooBig -> "corruption-header-size-exceeds-max"
  | EUnpackHeader -> "unpack-log-header"
  | ESizeExceedsMax -> "corruption-entry-size-exceeds-max"
  | ECrc -> "corruption-crc-checksum-failed"
  | ENoSecondHeader -> "corruption-truncation-no-second-header"
  | EBadDiscriminant -> "corruption-invalid-discriminant"
  | ETrueUp -> "corruption-true-up-exceeds-header-max"
  | EUnpackEntry -> "unpack-key-value-entry"
  | ESharedNotZero -> "corruption-shared-not-zero"

(* env C12_AGAIN=n: after an error keep calling next() n more times and print what comes *)
let again_n = match Sys.getenv_opt "C12_AGAIN" with Some s -> (try int_of_string s with _ -> 0) | None -> 0
let rec nat_of_int i = if i = 0 then O else S (nat_of_int (i - 1))

let split_nonempty c s = List.filter (fun x -> x <> "") (String.split_on_char c s)

(* number of leading batches whose concatenated entries equal `es` exactly *)
let prefix_j (ok_batches : entry list list) (es : entry list) : string =
  let rec strip (b : entry list) (es : entry list) : entry list option =
    match b, es with
    | [], _ -> Some es
    | x :: b', y :: es' -> if x = y then strip b' es' else None
    | _ :: _, [] -> None
  in
  let rec go j bs es =
    match es with
    | [] -> string_of_int j
    | _ -> (
        match bs with
        | [] -> "?"
        | b :: bs' -> ( match strip b es with Some rest -> go (j + 1) bs' rest | None -> "?"))
  in
  go 0 ok_batches es

let run_case (line : string) : string =
  let secs = String.split_on_char '|' line in
  let opts, batches, reads =
    match secs with
    | [a; b; c] -> (String.trim a, String.trim b, String.trim c)
    | _ -> failwith "case needs 3 sections"
  in
  let rollover =
    List.fold_left
      (fun acc kv ->
        match String.split_on_char '=' kv with
        | ["ro"; v] -> n_of_u64_string v
        | _ -> acc)
      dEFAULT_ROLLOVER (split_nonempty ' ' opts)
  in
  let raw = String.length batches >= 4 && String.sub batches 0 4 = "raw:" in
  let wout, file, ok_batches =
    if raw then ("raw", bytes_of_spec (String.sub batches 4 (String.length batches - 4)), [])
    else begin
      let bspecs = if batches = "" then [] else String.split_on_char ';' batches in
      let built =
        List.map
          (fun bs ->
            let es = List.map parse_entry (split_nonempty ',' (String.trim bs)) in
            let rs, buf = log_batch_build es in
            let accepted = List.filter_map (fun (e, r) -> match r with None -> Some e | Some _ -> None) (List.combine es rs) in
            let codes = List.filter_map (function None -> None | Some e -> Some (err_code e)) rs in
            (es, accepted, codes, buf))
          bspecs
      in
      let results, file = log_write crc32c rollover (List.map (fun (_, _, _, b) -> b) built) in
      let strs =
        List.map2
          (fun (es, acc, codes, _) (r, bw) ->
            Printf.sprintf "%d/%d%s=%s:%d" (List.length acc) (List.length es)
              (if codes = [] then "" else ":" ^ String.concat "," codes)
              (match r with WOk -> "ok" | WErr e -> "err:" ^ err_code e | WPanic -> "PANIC" | WFuel -> "FUEL")
              (int_of_n bw))
          built results
      in
      let okb = List.filter_map (fun ((_, acc, _, _), (r, _)) -> match r with WOk -> Some acc | _ -> None) (List.combine built results) in
      (String.concat " " strs, file, okb)
    end
  in
  let fdesc = Printf.sprintf "F len=%d d=%016Lx" (List.length file) (fnv_bytes fnv_init file) in
  let farr = Array.of_list file in
  let do_read (r : string) : string =
    let muts, cut =
      match String.split_on_char '@' (String.trim r) with
      | [m; c] -> (m, c)
      | _ -> failwith ("bad read " ^ r)
    in
    let a = if muts = "" then farr else Array.copy farr in
    List.iter
      (fun m ->
        match String.split_on_char '=' m with
        | [p; v] ->
            let p = int_of_string p in
            if p < Array.length a then a.(p) <- nbyte.(int_of_string v)
        | _ -> failwith "bad mutation")
      (split_nonempty ',' muts);
    let n = if cut = "-" then Array.length a else min (int_of_string cut) (Array.length a) in
    let f = Array.to_list (Array.sub a 0 n) in
    let (es, e), ag = log_read_again crc32c f (nat_of_int again_n) in
    let j = prefix_j ok_batches es in
    Printf.sprintf "n=%d j=%s d=%s o=%s" (List.length es) j
      (if j = "?" || raw then Printf.sprintf "%016Lx" (fnv_entries es) else "-")
      ((match e with REnd -> "end" | RErr e -> "err:" ^ err_code e | RFuel -> "FUEL")
       ^ (match e with
          | RErr _ when again_n > 0 ->
              "+again[" ^ String.concat "," (List.map (function
                | AEntry x -> Printf.sprintf "entry(klen=%d,ts=%Lu)" (List.length x.e_key) (int64_of_n x.e_ts)
                | AEnd -> "end" | AErr e -> "err:" ^ err_code e | AFuel -> "FUEL") ag) ^ "]"
          | _ -> ""))
  in
  let rs = List.map do_read (split_nonempty ';' reads) in
  String.concat " | " ([wout; fdesc] @ rs)

let () =
  try
    while true do
      let line = input_line stdin in
      if String.trim line = "" then print_endline ""
      else print_endline (try run_case line with Failure m -> "DRIVER-ERROR " ^ m)
    done
  with End_of_file -> ()
