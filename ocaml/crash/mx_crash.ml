(* mx_crash: the extracted crash model as a co-process of checks/c02.py.
   One command per stdin line, one answer line per command.

     RESET                          empty directory, process down
     PEND O                         pending operation := KeyValueStore::open      -> "CALLS m:call ; m:call ..."
     PEND W k=v,k=~,...             pending := write batch                        -> same
     PEND F                         pending := memtable flush                     -> same (+ " | FLAG 0" when it ends in duplicate-sst)
     PEND C gc|merge id,id | e,e ; e,e   pending := compaction (garbage collection / merge), inputs by model id, outputs by entries
     ACC                            does the pending operation satisfy `acceptedb` (a step the theorems cover)? -> "ACC 0|1"
     Q k a|b                        crash before call k of the pending operation under model a/b, then reopen
                                    -> "OPEN ok=1 err=0 ents=e,e,..."
     QQ k a|b k2 a|b                the same, then crash before call k2 of THAT recovery, then reopen
     FQ k                           I/O error injected at call k of the pending operation
                                    -> "FAULT err=0|1 | OPEN ok=.. err=.. ents=.."   (reopen of what is left, nothing lost)
     GO                             run the pending operation to completion       -> "DONE ok=0|1 seq cur files"
     EXIT                           the process exits (everything written stays)  -> "OK"
     SAVE / RESTORE                 push / pop the whole model state
     SNAP name / GOTO name          named snapshots of the whole model state
     FCALLS k                       the calls the pending operation issues when call k fails with an injected error
     GOF k                          run the pending operation with an error injected into call k; "FDONE err env": env=1 when the
                                    model goes on (every file recovery reads unchanged), env=0 when it stops there
     LOAD k a|b                     the process dies before call k of the pending operation: continue from that crash image
     ENT id                         entries of the sst with model id              -> "e,e,e"
     IMG                            the directory: names with data/durable counts

   keys/values hex ('-' empty), entry = key.ts.val ('~' tombstone).
   Names are printed with interned ids: sst:<i> tmp:<i> trashsst:<i> compdir:<j> comp:<j>:<n> log:<n> ... *)
open Gen_crash

let rec pos_of_int (i : int) : positive =
  if i = 1 then XH else if i land 1 = 0 then XO (pos_of_int (i lsr 1)) else XI (pos_of_int (i lsr 1))
let n_of_int (i : int) : n = if i = 0 then N0 else Npos (pos_of_int i)
let rec int_of_pos = function XH -> 1 | XO p -> 2 * int_of_pos p | XI p -> 2 * int_of_pos p + 1
let int_of_n = function N0 -> 0 | Npos p -> int_of_pos p
let rec nat_of_int i = if i = 0 then O else S (nat_of_int (i - 1))
let rec int_of_nat = function O -> 0 | S k -> 1 + int_of_nat k
let n_of_dec (s : string) : n =
  let rec go acc i = if i = String.length s then acc
    else go (N.add (N.mul acc (n_of_int 10)) (n_of_int (Char.code s.[i] - 48))) (i + 1) in
  go N0 0
let rec dec_of_n (x : n) : string =
  let rec digits x acc =
    match x with
    | N0 -> acc
    | _ -> let (q, r) = N.div_eucl x (n_of_int 10) in digits q (string_of_int (int_of_n r) ^ acc) in
  match x with N0 -> "0" | _ -> digits x ""

let bytes_of_hex (s : string) : n list =
  if s = "-" then [] else
  List.init (String.length s / 2) (fun i -> n_of_int (int_of_string ("0x" ^ String.sub s (2 * i) 2)))
let hex_of_bytes (l : n list) : string =
  if l = [] then "-" else String.concat "" (List.map (fun c -> Printf.sprintf "%02x" (int_of_n c)) l)
let split c s = List.filter (fun x -> x <> "") (String.split_on_char c s)

let parse_entry (s : string) : entry =
  match String.split_on_char '.' s with
  | [k; t; v] -> { ek = bytes_of_hex k; ets = n_of_dec t; ev = (if v = "~" then None else Some (bytes_of_hex v)) }
  | _ -> failwith ("bad entry " ^ s)
let show_entry (e : entry) : string =
  hex_of_bytes e.ek ^ "." ^ dec_of_n e.ets ^ "." ^ (match e.ev with None -> "~" | Some v -> hex_of_bytes v)
let show_entries (es : entry list) : string = String.concat "," (List.map show_entry es)

(* interning of sst names (= entry lists) and of compaction directories (= lists of sst names) *)
let sst_ids : (string, int) Hashtbl.t = Hashtbl.create 64
let sst_of_id : (int, entry list) Hashtbl.t = Hashtbl.create 64
let dir_ids : (string, int) Hashtbl.t = Hashtbl.create 16
let sst_id (x : entry list) : int =
  let k = show_entries x in
  match Hashtbl.find_opt sst_ids k with
  | Some i -> i
  | None -> let i = Hashtbl.length sst_ids + 1 in Hashtbl.add sst_ids k i; Hashtbl.add sst_of_id i x; i
let dir_id (d : entry list) : int =
  (* a compaction directory is named by the sum of its inputs' setsums = by all their entries *)
  let k = show_entries d in
  match Hashtbl.find_opt dir_ids k with
  | Some i -> i
  | None -> let i = Hashtbl.length dir_ids + 1 in Hashtbl.add dir_ids k i; i

let show_name = function
  | NDir k -> "dir:" ^ dec_of_n k
  | NMani -> "mani"
  | NLog n -> "log:" ^ dec_of_n n
  | NSst x -> "sst:" ^ string_of_int (sst_id x)
  | NTmp x -> "tmp:" ^ string_of_int (sst_id x)
  | NTmpLog n -> "tmplog:" ^ dec_of_n n
  | NCompDir d -> "compdir:" ^ string_of_int (dir_id d)
  | NComp (d, i) -> "comp:" ^ string_of_int (dir_id d) ^ ":" ^ string_of_int (int_of_nat i)
  | NTrashLog n -> "trashlog:" ^ dec_of_n n
  | NTrashSst x -> "trashsst:" ^ string_of_int (sst_id x)

let show_call = function
  | CMkdir d -> "mkdir " ^ show_name d
  | CRmdir d -> "rmdir " ^ show_name d
  | CCreate f -> "create " ^ show_name f
  | COpenAppend f -> "openappend " ^ show_name f
  | CWrite (f, _) -> "write " ^ show_name f
  | CSync f -> "sync " ^ show_name f
  | CLink (a, b) -> "link " ^ show_name a ^ " " ^ show_name b
  | CUnlink f -> "unlink " ^ show_name f
  | CRename (a, b) -> "rename " ^ show_name a ^ " " ^ show_name b
let show_mode = function Must -> "M" | Ignore -> "I" | Retire -> "R" | Exist -> "E" | Defer _ -> "D" | Late _ -> "L"
let show_prog (p : prog) : string =
  String.concat " ; " (List.map (fun (c, m) -> show_mode m ^ ":" ^ show_call c) p)

type pending = POpen | POp of op | PNone

let () =
  let s : fs ref = ref [] in
  let v : vstate option ref = ref None in
  (* after an error: has the current log failed, has the memtable thread died (Model.xstate) *)
  let log_ok = ref true in
  let flush_ok = ref true in
  let mani_ok = ref true in
  let pend = ref PNone in
  let saved : (fs * vstate option * pending * bool * bool * bool) list ref = ref [] in
  let snaps : (string, fs * vstate option * pending * bool * bool * bool) Hashtbl.t = Hashtbl.create 16 in
  let xs vv = { x_v = vv; x_log_ok = !log_ok; x_flush_ok = !flush_ok; x_mani_ok = !mani_ok } in
  let set_x x = v := Some x.x_v; log_ok := x.x_log_ok; flush_ok := x.x_flush_ok; mani_ok := x.x_mani_ok in
  let prog_of () : prog * bool =
    match !pend with
    | POpen -> let ((p, _), ok) = open_prog !s in (p, ok)
    | POp o -> (match !v with
                | Some vv -> (match xop_prog (xs vv) !s o with Some pf -> pf | None -> failwith "outside")
                | None -> failwith "operation while down")
    | PNone -> failwith "nothing pending" in
  let refused (p, flag) = (p = [] && not flag) in
  let reopen (img : fs) : string * fs * prog =
    let ((p, v'), ok) = open_prog img in
    let (s', e) = run_prog p None O img None in
    (Printf.sprintf "OPEN ok=%d err=%d seq=%s cur=%s ents=%s" (if ok then 1 else 0) (match e with None -> 0 | Some _ -> 1)
       (dec_of_n v'.v_seq) (dec_of_n v'.v_cur) (show_entries (all_entries v')), s', p) in
  let image m st = if m = "a" then image_a st else image_b st in
  try
    while true do
      let line = input_line stdin in
      let t = split ' ' line in
      let out =
        try
          match t with
          | ["RESET"] -> s := []; v := None; pend := PNone; log_ok := true; flush_ok := true; mani_ok := true; mani_ok := true; Hashtbl.reset snaps; Hashtbl.reset sst_ids; Hashtbl.reset sst_of_id; Hashtbl.reset dir_ids; "OK"
          | "PEND" :: "O" :: _ -> pend := POpen; let (p, ok) = prog_of () in "CALLS " ^ show_prog p ^ (if ok then "" else " | FLAG 0")
          | ["PEND"; "W"; b] ->
              let kvs = List.map (fun kv -> match String.split_on_char '=' kv with
                  | [k; "~"] -> (bytes_of_hex k, None)
                  | [k; vv] -> (bytes_of_hex k, Some (bytes_of_hex vv))
                  | _ -> failwith "bad kv") (split ',' b) in
              pend := POp (OpWrite kvs); let (p, ok) = prog_of () in "CALLS " ^ show_prog p
          | ["PEND"; "F"] -> pend := POp OpFlush; let (p, ok) = prog_of () in "CALLS " ^ show_prog p ^ (if ok then "" else " | FLAG 0")
          | "PEND" :: "C" :: gcflag :: rest ->
              let gc = (gcflag = "gc") in
              let r = String.concat " " rest in
              let (a, b) = match String.split_on_char '|' r with [a; b] -> (a, b) | [a] -> (a, "") | _ -> failwith "bad C" in
              let ins = List.map (fun i -> Hashtbl.find sst_of_id (int_of_string (String.trim i))) (split ',' (String.trim a)) in
              let outs = List.map (fun f -> List.map parse_entry (split ',' (String.trim f))) (split ';' b) in
              pend := POp (OpCompact (gc, ins, outs)); let (p, ok) = prog_of () in "CALLS " ^ show_prog p
          | ["ACC"] ->
              (* is the pending operation a step of the theorems' transition system (ProofsLts.accepted)? *)
              (match !pend, !v with
               | POp o, Some vv -> if acceptedb vv o then "ACC 1" else "ACC 0"
               | POpen, _ -> "ACC 1"
               | _ -> "ERROR nothing pending")
          | ["Q"; k; m] ->
              let (p, _) = prog_of () in
              let st = prefix_state p (nat_of_int (int_of_string k)) !s in
              let (r, _, _) = reopen (image m st) in r
          | ["QQ"; k; m; k2; m2] ->
              let (p, _) = prog_of () in
              let st = prefix_state p (nat_of_int (int_of_string k)) !s in
              let img1 = image m st in
              let ((p1, _), _) = open_prog img1 in
              let st2 = prefix_state p1 (nat_of_int (int_of_string k2)) img1 in
              let (r, _, _) = reopen (image m2 st2) in r
          | ["FQ"; k] ->
              let (p, _) = prog_of () in
              let (st, e) = run_prog p (Some (nat_of_int (int_of_string k))) O !s None in
              let (r, _, _) = reopen (image_a st) in
              Printf.sprintf "FAULT err=%d | %s" (match e with None -> 0 | Some _ -> 1) r
          | ["GO"] ->
              (match !pend with
               | POpen ->
                   (* open: its volatile state is computed from the directory before the run *)
                   let ((p, v'), okflag) = open_prog !s in
                   let (st, e) = run_prog p None O !s None in
                   let ok = okflag && e = None in
                   s := st; (if ok then v := Some v' else v := None); pend := PNone; log_ok := true; flush_ok := true;
                   Printf.sprintf "DONE ok=%d seq=%s cur=%s files=%s mem=%s" (if ok then 1 else 0) (dec_of_n v'.v_seq) (dec_of_n v'.v_cur)
                     (String.concat "," (List.map (fun x -> string_of_int (sst_id x)) v'.v_files)) (show_entries v'.v_mem)
               | POp o ->
                   let (p, flag) = prog_of () in
                   let (st, e) = run_prog p None O !s None in
                   let ok = flag && e = None in
                   s := st;
                   (match !v with
                    | Some vv -> if ok then set_x (xnext_ok (xs vv) o)
                                 else if refused (p, flag) then set_x (xnext_err (xs vv) o false)
                    | None -> ());
                   pend := PNone;
                   (match !v with
                    | Some vv -> Printf.sprintf "DONE ok=%d seq=%s cur=%s files=%s mem=%s" (if ok then 1 else 0) (dec_of_n vv.v_seq) (dec_of_n vv.v_cur)
                                   (String.concat "," (List.map (fun x -> string_of_int (sst_id x)) vv.v_files)) (show_entries vv.v_mem)
                    | None -> Printf.sprintf "DONE ok=%d" (if ok then 1 else 0))
               | PNone -> "ERROR nothing pending")
          | ["EXIT"] -> s := image_a !s; v := None; pend := PNone; "OK"
          | ["SAVE"] -> saved := (!s, !v, !pend, !log_ok, !flush_ok, !mani_ok) :: !saved; "OK"
          | ["RESTORE"] ->
              (match !saved with
               | (s0, v0, p0, l0, f0, m0) :: r -> s := s0; v := v0; pend := p0; log_ok := l0; flush_ok := f0; mani_ok := m0; saved := r; "OK"
               | [] -> "ERROR nothing saved")
          | ["FLAGS"] -> Printf.sprintf "FLAGS log=%d flush=%d mani=%d" (if !log_ok then 1 else 0) (if !flush_ok then 1 else 0) (if !mani_ok then 1 else 0)
          | ["SNAP"; nm] -> Hashtbl.replace snaps nm (!s, !v, !pend, !log_ok, !flush_ok, !mani_ok); "OK"
          | ["GOTO"; nm] ->
              (match Hashtbl.find_opt snaps nm with
               | Some (s0, v0, p0, l0, f0, m0) -> s := s0; v := v0; pend := p0; log_ok := l0; flush_ok := f0; mani_ok := m0; "OK"
               | None -> "ERROR no such snapshot")
          | ["FCALLS"; k] ->
              (* the calls the pending operation issues when an I/O error is injected into call k *)
              let (p, _) = prog_of () in
              "CALLS " ^ String.concat " ; " (List.map (fun c -> "M:" ^ show_call c) (issued p (Some (nat_of_int (int_of_string k))) O !s None))
          | ["GOF"; k] ->
              (* run the pending operation with an I/O error injected into call k and go on from there when
                 every file recovery reads is as before (env=1); otherwise the model stops here (env=0) *)
              (match !pend, !v with
               | POp o, Some vv ->
                   let (p, flag) = prog_of () in
                   let kn = nat_of_int (int_of_string k) in
                   let (st, e) = run_prog p (Some kn) O !s None in
                   let hm = hits_mani p kn in
                   pend := PNone;
                   (match e with
                    | None ->
                        (* the error was dropped by design: the operation completed *)
                        s := st; (if flag then set_x (xnext_ok (xs vv) o));
                        (match !v with
                         | Some w -> Printf.sprintf "FDONE err=0 env=1 ok=%d seq=%s cur=%s files=%s mem=%s" (if flag then 1 else 0) (dec_of_n w.v_seq) (dec_of_n w.v_cur)
                                       (String.concat "," (List.map (fun x -> string_of_int (sst_id x)) w.v_files)) (show_entries w.v_mem)
                         | None -> "FDONE err=0 env=1")
                    | Some _ ->
                        let env = same_relb !s st in
                        s := st;
                        if env then begin
                          set_x (xnext_err (xs vv) o hm);
                          (match !v with
                           | Some w -> Printf.sprintf "FDONE err=1 env=1 seq=%s cur=%s files=%s mem=%s" (dec_of_n w.v_seq) (dec_of_n w.v_cur)
                                         (String.concat "," (List.map (fun x -> string_of_int (sst_id x)) w.v_files)) (show_entries w.v_mem)
                           | None -> "FDONE err=1 env=1")
                        end else (v := None; "FDONE err=1 env=0"))
               | _ -> "ERROR nothing pending")
          | ["LOAD"; k; m] ->
              (* the process dies before call k of the pending operation; the directory is the crash image *)
              let (p, _) = prog_of () in
              s := image m (prefix_state p (nat_of_int (int_of_string k)) !s); v := None; pend := PNone; "OK"
          | ["ENT"; i] -> show_entries (Hashtbl.find sst_of_id (int_of_string i))
          | ["IMG"] ->
              String.concat " " (List.map (fun (nm, f) -> Printf.sprintf "%s/%d/%d" (show_name nm) (List.length f.f_data) (int_of_nat f.f_dur)) !s)
          | _ -> "BAD " ^ line
        with Failure m -> "ERROR " ^ m | Not_found -> "ERROR not-found" in
      print_string out; print_newline ()
    done
  with End_of_file -> ()
