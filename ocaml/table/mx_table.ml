(* mx_table: runs the extracted Table model on cases read from stdin (one per line), same line
   format as harness/src/bin/c10.rs plus, for S and M cases, a fourth section with the item hashes:
     HEAD | ENTRIES | PROG | KEYHEX:HASHDEC ...
   Output: the same tokens as the harness, except that the setsum field of meta: is `#n` (the
   number of items summed) because the model does not compute SHA3, and that f: carries the bytes
   of the filter block only (the harness prints the whole file).
   R cases (second pass, file level):
     R BRI KRI TBS BITS | ENTRIES | PROG | KEYHEX:HASHDEC ... | FILEHEX | DIGESTHEX
   run the byte-level reader of Table/ModelFile.v on FILEHEX (the bytes of the file the
   implementation wrote) and the model's writer on the inputs; output
     wr:ok | wr:DIFF:<first differing offset>:<model length>   meta:...   the observations. *)
open Gen_table

let rec pos_of_int (i : int) : positive =
  if i = 1 then XH else if i land 1 = 0 then XO (pos_of_int (i lsr 1)) else XI (pos_of_int (i lsr 1))
let n_of_int (i : int) : n = if i = 0 then N0 else Npos (pos_of_int i)
let rec int_of_pos = function XH -> 1 | XO p -> 2 * int_of_pos p | XI p -> 2 * int_of_pos p + 1
let int_of_n = function N0 -> 0 | Npos p -> int_of_pos p
let rec nat_of_int i = if i = 0 then O else S (nat_of_int (i - 1))
let rec int_of_nat = function O -> 0 | S n -> 1 + int_of_nat n

let ten = n_of_int 10
(* decimal strings up to 2^64-1 (beyond OCaml's int) *)
let n_of_dec (s : string) : n =
  let acc = ref N0 in
  String.iter (fun c -> acc := N.add (N.mul !acc ten) (n_of_int (Char.code c - 48))) s;
  !acc
let dec_of_n (x : n) : string =
  if x = N0 then "0"
  else begin
    let b = Buffer.create 20 in
    let cur = ref x in
    let digits = ref [] in
    while !cur <> N0 do
      digits := int_of_n (N.modulo !cur ten) :: !digits;
      cur := N.div !cur ten
    done;
    List.iter (fun d -> Buffer.add_char b (Char.chr (48 + d))) !digits;
    Buffer.contents b
  end

let bytes_of_hex (s : string) : n list =
  let l = String.length s / 2 in
  List.init l (fun i -> n_of_int (int_of_string ("0x" ^ String.sub s (2 * i) 2)))
let hex_of_bytes (l : n list) : string =
  let b = Buffer.create (2 * List.length l) in
  List.iter (fun c -> Buffer.add_string b (Printf.sprintf "%02x" (int_of_n c))) l;
  Buffer.contents b

(* "" | HEX | *LEN:BYTEHEX *)
let bytes_e (s : string) : n list =
  if s = "" then []
  else if s.[0] = '*' then begin
    let c = String.index s ':' in
    let n = int_of_string (String.sub s 1 (c - 1)) in
    let b = n_of_int (int_of_string ("0x" ^ String.sub s (c + 1) 2)) in
    List.init n (fun _ -> b)
  end else bytes_of_hex s

let parse_entry (t : string) : entry =
  let at = String.index t '@' in
  let key = bytes_e (String.sub t 0 at) in
  let rest = String.sub t (at + 1) (String.length t - at - 1) in
  if rest.[String.length rest - 1] = '~' then
    ((key, n_of_dec (String.sub rest 0 (String.length rest - 1))), None)
  else begin
    let eq = String.index rest '=' in
    ((key, n_of_dec (String.sub rest 0 eq)),
     Some (bytes_e (String.sub rest (eq + 1) (String.length rest - eq - 1))))
  end

let words (s : string) : string list =
  String.split_on_char ' ' s |> List.filter (fun x -> x <> "")

let parse_cop (t : string) : cop =
  match t with
  | "F" -> COp OFirst
  | "E" -> COp OLast
  | "N" -> COp ONext
  | "V" -> COp OPrev
  | _ ->
    if String.length t >= 2 && String.sub t 0 2 = "S:" then
      COp (OSeek (bytes_e (String.sub t 2 (String.length t - 2))))
    else if String.length t >= 2 && String.sub t 0 2 = "G:" then begin
      let r = String.sub t 2 (String.length t - 2) in
      let c = String.index r ':' in
      CGet (bytes_e (String.sub r 0 c), n_of_dec (String.sub r (c + 1) (String.length r - c - 1)))
    end else failwith ("bad prog token " ^ t)

let code = function
  | EKeyTooLarge -> "key-too-large"
  | EValueTooLarge -> "value-too-large"
  | ETableFull -> "table-full"
  | ESortOrder -> "sort-order"
  | ELogicRestartIdx -> "logic-error-restart-idx-exceeds-num-restarts"
  | ECorruptOffsetBoundary -> "corruption-offset-exceeds-restarts-boundary"
  | ECorruptZeroRestarts -> "corruption-block-with-zero-restarts"
  | ECorruptNoKvp -> "corruption-restart-point-no-key-value-pair"
  | ECorruptBinSearch -> "corruption-binary-search-left-ne-right"
  | ELogicNegRestart -> "logic-error-tried-taking-negative-restart-idx"
  | ELogicNextNotPositioned -> "logic-error-next-not-positioned"
  | EUnpack -> "unpack"
  | ECorruptMetaNull -> "corruption-meta-block-null-value"
  | ECorruptMetaStartLimit -> "corruption-block-metadata-start-gte-limit"
  | ECorruptIndexPastFilter -> "corruption-index-block-runs-past-filter-block"
  | ECorruptFilterPastFinal -> "corruption-filter-block-runs-past-final-block"
  | ECorruptFileTooSmall -> "corruption-file-too-small"
  | ECorruptNotPlain -> "corruption-tried-loading-filter-block-as-plain"
  | ECorruptNotFilter -> "corruption-tried-loading-plain-block-as-filter"
  | ECorruptBadFilter -> "corruption-bad-filter-block"
  | ELogicFlushNone -> "logic-error-flush-block-when-none"
  | ELogicStartSome -> "logic-error-start-new-block-when-some"
  | EPanic -> "PANIC"
  | EFuel -> "OUT-OF-FUEL"

let show_entry (((k, ts), v) : entry) : string =
  match v with
  | Some v -> hex_of_bytes k ^ "@" ^ dec_of_n ts ^ "=" ^ hex_of_bytes v
  | None -> hex_of_bytes k ^ "@" ^ dec_of_n ts ^ "~"

let show_out = function
  | OutKv None -> "-"
  | OutKv (Some e) -> show_entry e
  | OutErr e -> "ERR:" ^ code e
  | OutGet (Some v, _) -> "get:" ^ hex_of_bytes v
  | OutGet (None, true) -> "get:~"
  | OutGet (None, false) -> "get:-"

let show_rej (rej : (nat * err) list) : string list =
  List.map (fun (i, e) -> Printf.sprintf "rej%d:%s" (int_of_nat i) (code e)) rej

let show_meta = function
  | Err e -> "meta:ERR:" ^ code e
  | Ok m ->
    Printf.sprintf "meta:%s:%s:%s:%s:#%d:%s" (hex_of_bytes m.md_first) (hex_of_bytes m.md_last)
      (dec_of_n m.md_smallest) (dec_of_n m.md_biggest) (List.length m.md_setsum) (dec_of_n m.md_file_size)

(* CRC-32C (Castagnoli), reflected, table driven *)
let crc_table =
  Array.init 256 (fun i ->
      let c = ref i in
      for _ = 0 to 7 do
        if !c land 1 = 1 then c := (!c lsr 1) lxor 0x82F63B78 else c := !c lsr 1
      done;
      !c)
let crc32c (bs : n list) : n =
  let c = ref 0xFFFFFFFF in
  List.iter (fun b -> c := crc_table.((!c lxor int_of_n b) land 255) lxor (!c lsr 8)) bs;
  n_of_int ((!c lxor 0xFFFFFFFF) land 0xFFFFFFFF)

let fcode = function
  | FE e -> code e
  | FCrc -> "crc32c-failure"
  | FIo -> "io"
  | FOffsetTooLarge -> "corruption-final-block-offset-too-large"
  | FDataPastIndex -> "corruption-data-block-runs-past-index-block"

let show_fout = function
  | FoKv None -> "-"
  | FoKv (Some e) -> show_entry e
  | FoErr e -> "ERR:" ^ fcode e
  | FoGet (Some v, _) -> "get:" ^ hex_of_bytes v
  | FoGet (None, true) -> "get:~"
  | FoGet (None, false) -> "get:-"

let show_fmeta = function
  | FErr e -> "meta:ERR:" ^ fcode e
  | FOk m ->
    Printf.sprintf "meta:%s:%s:%s:%s:%s:%s" (hex_of_bytes m.fm_first) (hex_of_bytes m.fm_last)
      (dec_of_n m.fm_smallest) (dec_of_n m.fm_biggest) (hex_of_bytes m.fm_setsum) (dec_of_n m.fm_file_size)

let parse_sips (s : string) : (bytes * n) list =
  List.map (fun t ->
      let c = String.index t ':' in
      (bytes_e (String.sub t 0 c), n_of_dec (String.sub t (c + 1) (String.length t - c - 1))))
    (words s)

let run_line (line : string) : string =
  let parts = Array.of_list (String.split_on_char '|' line) in
  let head = Array.of_list (words parts.(0)) in
  let ents = words parts.(1) in
  let prog = List.map parse_cop (words parts.(2)) in
  let sips = if Array.length parts > 3 then parse_sips parts.(3) else [] in
  let nd i = n_of_dec head.(i) in
  match head.(0) with
  | "B" ->
    let r = run_block_case { o_bri = nd 1; o_kri = nd 2 } (List.map parse_entry ents) prog in
    String.concat " "
      (show_rej r.br_rej @ [ "seal:ok"; "bytes:" ^ hex_of_bytes r.br_bytes ] @ List.map show_out r.br_outs)
  | "S" ->
    let o = { so_block = { o_bri = nd 1; o_kri = nd 2 }; so_tbs = nd 3; so_tfs = n_of_int (1 lsl 26);
              so_mfs = n_of_int (1 lsl 22); so_bits = nd 4 } in
    let r = run_sst_case sips o (List.map parse_entry ents) prog in
    (match r.sr_seal with
     | Err e -> String.concat " " (show_rej r.sr_rej @ [ "seal:" ^ code e ])
     | Ok () ->
       (* the filter block's bytes: eight little-endian u32 per block *)
       let le32 w =
         let x = int_of_n w in
         Printf.sprintf "%02x%02x%02x%02x" (x land 255) ((x lsr 8) land 255) ((x lsr 16) land 255) ((x lsr 24) land 255) in
       let flt = [ "f:" ^ String.concat "" (List.map (fun b -> String.concat "" (List.map le32 b)) r.sr_filter) ] in
       String.concat " "
         (show_rej r.sr_rej @ [ "seal:ok"; show_meta r.sr_meta ] @ flt @ List.map show_out r.sr_outs))
  | "R" ->
    let o = { so_block = { o_bri = nd 1; o_kri = nd 2 }; so_tbs = nd 3; so_tfs = n_of_int (1 lsl 26);
              so_mfs = n_of_int (1 lsl 22); so_bits = nd 4 } in
    let filehex = String.trim parts.(4) in
    let file = bytes_of_hex filehex in
    let dg = bytes_of_hex (String.trim parts.(5)) in
    let r = run_file_case crc32c sips file prog o (List.map parse_entry ents) dg in
    let wr =
      match r.fr_written with
      | None -> "wr:NONE"
      | Some w ->
        let wh = hex_of_bytes w in
        if wh = filehex then "wr:ok"
        else begin
          let n = Stdlib.min (String.length wh) (String.length filehex) in
          let i = ref 0 in
          while !i < n && wh.[!i] = filehex.[!i] do incr i done;
          Printf.sprintf "wr:DIFF:%d:%d" (!i / 2) (String.length wh / 2)
        end in
    String.concat " " ([ wr; show_fmeta r.fr_meta ] @ List.map show_fout r.fr_outs)
  | "M" ->
    let o = { so_block = { o_bri = nd 1; o_kri = nd 2 }; so_tbs = nd 3; so_tfs = nd 4; so_mfs = nd 5;
              so_bits = n_of_int 17 } in
    let xs = List.map (fun t -> if t = "H" then MHint else MEntry (parse_entry t)) ents in
    let r = run_multi_case sips o xs in
    (match r.mr_seal with
     | Err e -> String.concat " " (show_rej r.mr_rej @ [ "seal:" ^ code e ])
     | Ok () ->
       String.concat " "
         (show_rej r.mr_rej
          @ [ "seal:ok"; Printf.sprintf "files:%d" (List.length r.mr_files) ]
          @ List.concat_map (fun (m, outs) -> [ show_meta m; "[" ] @ List.map show_out outs @ [ "]" ]) r.mr_files))
  | _ -> failwith "bad head"

let () =
  try
    while true do
      let line = input_line stdin in
      if String.trim line = "" then print_endline ""
      else print_endline (try run_line line with Stack_overflow -> "MODEL-STACK-OVERFLOW")
    done
  with End_of_file -> ()
