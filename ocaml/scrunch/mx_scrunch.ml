(* mx_scrunch: runs the extracted Scrunch model on the case lines of harness/src/bin/c19.rs
   (same input grammar, same output token format; see that file).
     doc|FLAGS|TEXT|BOUNDARIES|NEEDLES|OFFSETS|RECORDS
        sections: C construct_compressed, P construct_reference_psi_doc, W construct_wavelet_doc,
        R ReferenceDocument model, N the specification (occurrences / spec_record_of / spec_record),
        K (flag k, with C) components of the compressed model, c adds constrain.
     bv|KIND|RUNS   wt|KIND|SYMBOLS   sais|TEXT *)
open Gen_scrunch

let rec pos_of_int (i : int) : positive =
  if i = 1 then XH else if i land 1 = 0 then XO (pos_of_int (i lsr 1)) else XI (pos_of_int (i lsr 1))
let n_of_int (i : int) : n = if i = 0 then N0 else Npos (pos_of_int i)
let rec int_of_pos = function XH -> 1 | XO p -> 2 * int_of_pos p | XI p -> 2 * int_of_pos p + 1
let int_of_n = function N0 -> 0 | Npos p -> int_of_pos p
let nat_of_int i = let rec go i acc = if i = 0 then acc else go (i - 1) (S acc) in go i O
let int_of_nat n = let rec go n acc = match n with O -> acc | S m -> go m (acc + 1) in go n 0

let words s = String.split_on_char ' ' (String.trim s) |> List.filter (fun x -> x <> "")
let nums s = if String.trim s = "-" then [] else List.map int_of_string (words s)
let join l = if l = [] then "-" else String.concat "," (List.map string_of_int l)

let show_res f = function Ok a -> f a | Err -> "E" | Panic -> "P" | NoFuel -> "F"
let show_nat n = string_of_int (int_of_nat n)
let show_nats l = join (List.map int_of_nat l)
let show_ns l = join (List.map int_of_n l)
let show_opt f = function Some a -> f a | None -> "N"

type ops = {
  o_len : unit -> string; o_recs : unit -> string;
  o_search : n list -> string; o_count : n list -> string;
  o_lookup : nat -> string; o_retrieve : nat -> string; o_offset_of : nat -> string }

let doc_ops (d : doc) = {
  o_len = (fun () -> show_res show_nat (doc_len d));
  o_recs = (fun () -> show_nat (doc_records d));
  o_search = (fun nd -> show_res show_nats (doc_search d nd));
  o_count = (fun nd -> show_res show_nat (doc_count d nd));
  o_lookup = (fun o -> show_res show_nat (doc_lookup d o));
  o_retrieve = (fun r -> show_res show_ns (doc_retrieve d r));
  o_offset_of = (fun r -> show_res show_nat (doc_offset_of d r)) }

let ref_ops (r : refdoc) = {
  o_len = (fun () -> show_nat (length r.r_text));
  o_recs = (fun () -> show_nat (length r.r_rb));
  o_search = (fun nd -> show_nats (ref_search r nd));
  o_count = (fun nd -> show_nat (ref_count r nd));
  o_lookup = (fun o -> show_res show_nat (ref_lookup r o));
  o_retrieve = (fun x -> show_res show_ns (ref_retrieve r x));
  o_offset_of = (fun x -> show_res show_nat (ref_offset_of r x)) }

(* the specification itself *)
let spec_ops text rb =
  let n = int_of_nat (length text) and nr = List.length rb in {
  o_len = (fun () -> show_nat (length text));
  o_recs = (fun () -> string_of_int nr);
  o_search = (fun nd -> show_nats (occurrences text nd));
  o_count = (fun nd -> show_nat (length (occurrences text nd)));
  o_lookup = (fun o -> if int_of_nat o < n then show_nat (spec_record_of rb o) else "E");
  o_retrieve = (fun r -> if int_of_nat r < nr then show_ns (spec_record text rb r) else "E");
  o_offset_of = (fun r -> if int_of_nat r < nr then show_nat (nth r rb O) else "E") }

let run_queries (o : ops) needles offsets records =
  let out = ref [] in
  let push s = out := s :: !out in
  push ("len=" ^ o.o_len ());
  push ("recs=" ^ o.o_recs ());
  List.iteri (fun i nd ->
    push (Printf.sprintf "S%d=%s" i (o.o_search nd));
    push (Printf.sprintf "C%d=%s" i (o.o_count nd))) needles;
  List.iter (fun off -> push (Printf.sprintf "L%d=%s" off (o.o_lookup (nat_of_int off)))) offsets;
  List.iter (fun r ->
    push (Printf.sprintf "T%d=%s" r (o.o_retrieve (nat_of_int r)));
    push (Printf.sprintf "O%d=%s" r (o.o_offset_of (nat_of_int r)))) records;
  String.concat " " (List.rev !out)

let components (d : doc) (text : int list) with_constrain =
  let n = List.length text in
  let idxs = List.init (n + 2) (fun i -> i) in
  let out = ref [] in
  let push s = out := s :: !out in
  let sg = d.d_sigma in
  let k = int_of_nat (sigma_K sg) in
  push (Printf.sprintf "K=%d" k);
  push (Printf.sprintf "psilen=%d" (int_of_nat d.d_psi.p_len));
  let tab name f = push (name ^ "=" ^ String.concat "," (List.map (fun i -> f (nat_of_int i)) idxs)) in
  tab "sa" (fun i -> show_res show_nat (d.d_sa i));
  tab "psi" (fun i -> show_res show_nat (d.d_psi.p_lookup i));
  tab "isa" (fun i -> show_res show_nat (d.d_isa i));
  tab "sg" (fun i -> match sa_index_to_sigma sg i with Some x -> show_nat x | None -> "E");
  tab "st" (fun i -> show_res (fun x -> string_of_int (int_of_n x)) (sa_index_to_t sg i));
  let alpha = List.sort_uniq compare text in
  let m32 = 0xFFFFFFFF in
  let probe = List.sort_uniq compare
      (alpha @ List.concat_map (fun a -> [(a + 1) land m32; (a - 1) land m32]) alpha @ [0; m32]) in
  push ("rng=" ^ String.concat "," (List.map (fun c ->
    Printf.sprintf "%d:%s:%s" c
      (match char_to_sigma sg (n_of_int c) with Some x -> show_nat x | None -> "E")
      (show_res (fun (a, b) -> Printf.sprintf "%d-%d" (int_of_nat a) (int_of_nat b)) (sa_range_for sg (n_of_int c)))) probe));
  if with_constrain then begin
    let v = ref [] in
    for kk = 1 to k - 1 do
      match sa_range_for_sigma sg (nat_of_int kk) with
      | Ok range ->
          for a = 1 to n do
            for b = a - 1 to n do
              v := Printf.sprintf "%d:%d:%d:%s" kk a b
                  (show_res (fun (x, y) -> Printf.sprintf "%d-%d" (int_of_nat x) (int_of_nat y))
                     (d.d_psi.p_constrain range (nat_of_int a, nat_of_int b))) :: !v
            done
          done
      | _ -> v := Printf.sprintf "%d:E" kk :: !v
    done;
    push ("con=" ^ String.concat "," (List.rev !v))
  end;
  String.concat " " (List.rev !out)

let doc_case f =
  let flags = List.nth f 1 in
  let text_i = nums (List.nth f 2) in
  let text = List.map n_of_int text_i in
  let rb = List.map nat_of_int (nums (List.nth f 3)) in
  let needles =
    let s = List.nth f 4 in
    if String.trim s = "" then [] else List.map (fun x -> List.map n_of_int (nums x)) (String.split_on_char ';' s) in
  let offsets = nums (List.nth f 5) and records = nums (List.nth f 6) in
  let has c = String.contains flags c in
  let sections = ref [] in
  let push s = sections := s :: !sections in
  let via name (r : doc res) =
    match r with
    | Ok d -> push (name ^ ": " ^ run_queries (doc_ops d) needles offsets records); Some d
    | Err -> push (name ^ ": CE"); None
    | Panic -> push (name ^ ": CP"); None
    | NoFuel -> push (name ^ ": CF"); None in
  String.iter (fun c ->
    match c with
    | 'C' ->
        let d = via "C" (construct_compressed text rb) in
        (match d with
         | Some d when has 'k' -> push ("K: " ^ components d text_i (has 'c'))
         | _ -> ())
    | 'P' -> ignore (via "P" (construct_reference_psi_doc text rb))
    | 'W' -> ignore (via "W" (construct_wavelet_doc text rb))
    | 'R' ->
        (match construct_refdoc text rb with
         | Ok r -> push ("R: " ^ run_queries (ref_ops r) needles offsets records)
         | _ -> push "R: CE")
    | 'N' -> push ("N: " ^ run_queries (spec_ops text rb) needles offsets records)
    | _ -> ()) flags;
  String.concat " | " (List.rev !sections)

let parse_runs s =
  if String.trim s = "-" then [] else
  List.concat_map (fun run ->
    match String.split_on_char ':' run with
    | [n; b] -> List.init (int_of_string n) (fun _ -> b = "1")
    | _ -> failwith "run") (words s)

let bv_case f =
  let kind = List.nth f 1 in
  let bits = parse_runs (List.nth f 2) in
  let n = List.length bits in
  let ones = List.length (List.filter (fun b -> b) bits) in
  let zeros = n - ones in
  let len = bv_len bits in
  let inherited = (kind = "sparse" || kind = "sparse4" || kind = "sparse128") in
  let tab name cnt f = name ^ "=" ^ String.concat "," (List.init cnt (fun i -> f (nat_of_int i))) in
  let rank = bv_rank bits in
  let by_list = String.concat " " [
    "len=" ^ show_nat len;
    tab "a" (n + 2) (fun i -> show_opt (fun b -> if b then "1" else "0") (bv_access bits i));
    tab "r" (n + 2) (fun i -> show_opt show_nat (rank i));
    tab "z" (n + 2) (fun i -> show_opt show_nat (default_rank0 rank i));
    tab "s" (ones + 3) (fun i ->
      (* every implementation overrides select; the trait default is printed as ds *)
      show_opt show_nat (bv_select bits i));
    tab "t" (zeros + 3) (fun i ->
      if inherited then show_res (show_opt show_nat) (default_select0 len rank i)
      else show_opt show_nat (bv_select0 bits i));
    tab "ds" (ones + 3) (fun i -> show_res (show_opt show_nat) (default_select len rank i)) ] in
  (* the same tables through the structural model of the implementation, where there is one *)
  let structural access rank select select0 =
    let rank_opt i = match rank i with Ok r -> r | _ -> None in
    String.concat " " [
      "len=" ^ show_nat len;
      tab "a" (n + 2) (fun i -> show_res (show_opt (fun b -> if b then "1" else "0")) (access i));
      tab "r" (n + 2) (fun i -> show_res (show_opt show_nat) (rank i));
      tab "z" (n + 2) (fun i -> show_opt show_nat (default_rank0 rank_opt i));
      tab "s" (ones + 3) (fun i -> show_res (show_opt show_nat) (select i));
      tab "t" (zeros + 3) (fun i -> show_res (show_opt show_nat) (select0 rank_opt i)) ] in
  let idx = List.filteri (fun _ _ -> true) (List.concat (List.mapi (fun i b -> if b then [nat_of_int i] else []) bits)) in
  let sparse_branch = match kind with "sparse" -> Some 16 | "sparse4" -> Some 4 | "sparse128" -> Some 128 | _ -> None in
  match sparse_branch with
  | Some br ->
      (* kind sparse is BitVector::construct(bits); the others call from_indices with their branch *)
      (match (if kind = "sparse" then sv_construct bits else sv_from_indices (nat_of_int br) len idx) with
       | Some v ->
           by_list ^ " || " ^ structural (sv_access v) (sv_rank v) (fun k -> Ok (sv_select v k))
                                (fun rk k -> default_select0 len rk k)
       | None -> by_list ^ " || CE")
  | None ->
      if kind = "rrr" then
        (match rr_construct bits with
         | Ok v -> by_list ^ " || " ^ structural (rr_access v) (rr_rank v) (rr_select v) (fun _ k -> rr_select0 v k)
         | _ -> by_list ^ " || CE")
      else by_list

(* sv_from_indices on an arbitrary index list: CE when refused, else the structural tables *)
let bvidx_case f =
  let branch = int_of_string (List.nth f 1) in
  let n = int_of_string (List.nth f 2) in
  let idx = nums (List.nth f 3) in
  match sv_from_indices (nat_of_int branch) (nat_of_int n) (List.map nat_of_int idx) with
  | None -> "CE"
  | Some v ->
      let bits = List.init n (fun i -> List.mem i idx) in
      let ones = List.length (List.filter (fun b -> b) bits) in
      let zeros = n - ones in
      let len = nat_of_int n in
      let tab name cnt f = name ^ "=" ^ String.concat "," (List.init cnt (fun i -> f (nat_of_int i))) in
      let rank_opt i = match sv_rank v i with Ok r -> r | _ -> None in
      "OK " ^ String.concat " " [
        "len=" ^ show_nat len;
        tab "a" (n + 2) (fun i -> show_res (show_opt (fun b -> if b then "1" else "0")) (sv_access v i));
        tab "r" (n + 2) (fun i -> show_res (show_opt show_nat) (sv_rank v i));
        tab "z" (n + 2) (fun i -> show_opt show_nat (default_rank0 rank_opt i));
        tab "s" (ones + 3) (fun i -> show_opt show_nat (sv_select v i));
        tab "t" (zeros + 3) (fun i -> show_res (show_opt show_nat) (default_select0 len rank_opt i)) ]

(* the L and K tables of the rrr model, for comparison with the literals in rrr.rs *)
let rrrtab_case () =
  let (l, k) = rrr_tables in
  "L=" ^ show_nats l ^ " K=" ^ String.concat ";" (List.map show_ns k)

let wt_case f =
  let syms = nums (List.nth f 2) in
  let t = List.map nat_of_int syms in
  let n = List.length syms in
  let alpha = List.sort_uniq compare syms in
  (* once through the list interface (the wt_ functions), once through the structural model of
     prefix::WaveletTree<FixedWidthEncoder> (the pt_ functions over fw_tree) *)
  let tables len access rank select =
    let out = ref [ "len=" ^ len ] in
    let push s = out := s :: !out in
    push ("a=" ^ String.concat "," (List.init (n + 1) (fun i -> show_opt show_nat (access (nat_of_int i)))));
    List.iter (fun q ->
      let cnt = List.length (List.filter (fun x -> x = q) syms) in
      push (Printf.sprintf "r%d=%s" q (String.concat "," (List.init (n + 2) (fun i -> show_opt show_nat (rank (nat_of_int q) (nat_of_int i))))));
      push (Printf.sprintf "s%d=%s" q (String.concat "," (List.init (cnt + 2) (fun k -> show_opt show_nat (select (nat_of_int q) (nat_of_int k))))))) alpha;
    String.concat " " (List.rev !out) in
  let iface = tables (show_nat (wt_len t)) (wt_access t) (wt_rank_q t) (wt_select_q t) in
  let structural =
    match fw_tree t with
    | Ok (tree, chars) ->
        tables (string_of_int n) (pt_access (fw_dec chars) tree) (pt_rank_q (fw_enc chars) tree) (pt_select_q (fw_enc chars) tree)
    | Err -> "CE" | Panic -> "CP" | NoFuel -> "CF" in
  (* ... and once with every node of that tree an rrr vector (the rt_ functions over rt_of) *)
  let flat = function Ok r -> r | _ -> None in
  let over_rrr =
    match fw_tree t with
    | Ok (tree, chars) ->
        (match rt_of tree with
         | Ok rt -> tables (string_of_int n) (fun x -> flat (rt_access (fw_dec chars) rt x))
                      (fun q x -> flat (rt_rank_q (fw_enc chars) rt q x)) (fun q k -> flat (rt_select_q (fw_enc chars) rt q k))
         | Err -> "RE" | Panic -> "RP" | NoFuel -> "RF")
    | _ -> "CE" in
  iface ^ " || " ^ structural ^ " || " ^ over_rrr

let sais_case f =
  let text = List.map n_of_int (nums (List.nth f 1)) in
  match sigma_construct text with
  | Ok sg ->
      (match translate_text sg text with
       | Ok s -> let sa = suffix_array s in
                 "sa=" ^ show_nats sa ^ " psi=" ^ show_nats (psi_of sa (inverse sa))
       | _ -> "SE")
  | _ -> "CE"

let () =
  try
    while true do
      let line = input_line stdin in
      let f = String.split_on_char '|' line in
      let out =
        try
          match List.hd f with
          | "doc" -> doc_case f
          | "bv" -> bv_case f
          | "rrrtab" -> rrrtab_case ()
          | "bvidx" -> bvidx_case f
          | "wt" -> wt_case f
          | "sais" -> sais_case f
          | "" -> ""
          | _ -> "SKIP"
        with Stack_overflow -> "STACK" in
      print_endline out
    done
  with End_of_file -> ()
