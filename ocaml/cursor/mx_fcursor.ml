(* mx_fcursor: as mx_cursor, for the fallible model (FCompose.frun_model): leaves F / O carry failure
   schedules, a call that returns Err prints ERR and the run goes on.
   mx_cursor: runs the extracted Cursor model (Compose.run_model) and the reference cursor over
   the composed specification (Compose.run_spec) on cases read from stdin, one per line, in the
   same token grammar as harness/src/bin/c11.rs:   EXPR | PROG
   Output per case:  MODEL-OBSERVATIONS # SPEC-OBSERVATIONS
   an observation is  - | KEYHEX@TS=VALHEX | KEYHEX@TS~ ; a failed state prints PANIC / ERR / FUEL
   and ends that side's output. *)
open Gen_fcursor

let rec pos_of_int (i : int) : positive =
  if i = 1 then XH else if i land 1 = 0 then XO (pos_of_int (i lsr 1)) else XI (pos_of_int (i lsr 1))
let n_of_int (i : int) : n = if i = 0 then N0 else Npos (pos_of_int i)
let rec int_of_pos = function XH -> 1 | XO p -> 2 * int_of_pos p | XI p -> 2 * int_of_pos p + 1
let int_of_n = function N0 -> 0 | Npos p -> int_of_pos p

(* decimal strings up to 2^64-1 <-> N, without overflowing OCaml's 63-bit ints *)
let n_of_dec (s : string) : n =
  (* binary digits via repeated division of the decimal string by 2 *)
  let digits = Array.init (String.length s) (fun i -> Char.code s.[i] - 48) in
  let is_zero () = Array.for_all (fun d -> d = 0) digits in
  let bits = Stdlib.ref [] in
  while not (is_zero ()) do
    let carry = Stdlib.ref 0 in
    for i = 0 to Array.length digits - 1 do
      let cur = !carry * 10 + digits.(i) in
      digits.(i) <- cur / 2;
      carry := cur mod 2
    done;
    bits := !carry :: !bits          (* most significant bit ends up first *)
  done;
  match !bits with
  | [] -> N0
  | _ :: rest ->                    (* leading bit is 1 *)
      Npos (List.fold_left (fun p b -> if b = 1 then XI p else XO p) XH rest)

let dec_of_n (x : n) : string =
  match x with
  | N0 -> "0"
  | Npos p ->
      (* bits, most significant first *)
      let rec bits p acc = match p with XH -> 1 :: acc | XO q -> bits q (0 :: acc) | XI q -> bits q (1 :: acc) in
      let bs = bits p [] in
      (* decimal digits little-endian, double-and-add *)
      let digs = Stdlib.ref [0] in
      List.iter (fun b ->
        let carry = Stdlib.ref b in
        digs := List.map (fun d -> let v = d * 2 + !carry in carry := v / 10; v mod 10) !digs;
        if !carry > 0 then digs := !digs @ [!carry]) bs;
      String.concat "" (List.rev_map string_of_int !digs)

let bytes_of_hex (s : string) : n list =
  let l = String.length s / 2 in
  List.init l (fun i -> n_of_int (int_of_string ("0x" ^ String.sub s (2 * i) 2)))
let hex_of_bytes (l : n list) : string =
  String.concat "" (List.map (fun b -> Printf.sprintf "%02x" (int_of_n b)) l)

let parse_entry (t : string) : entry =
  let at = String.index t '@' in
  let k = bytes_of_hex (String.sub t 0 at) in
  let rest = String.sub t (at + 1) (String.length t - at - 1) in
  if rest <> "" && rest.[String.length rest - 1] = '~' then
    { ek = k; ets = n_of_dec (String.sub rest 0 (String.length rest - 1)); ev = None }
  else begin
    let eq = String.index rest '=' in
    { ek = k; ets = n_of_dec (String.sub rest 0 eq);
      ev = Some (bytes_of_hex (String.sub rest (eq + 1) (String.length rest - eq - 1))) }
  end

let parse_bound (t : string) : bound =
  if t = "U" then Unbounded
  else
    let h = bytes_of_hex (String.sub t 2 (String.length t - 2)) in
    if t.[0] = 'I' then Included h else Excluded h

(* "3,7" -> [false;false;true;false;false;false;true] : call numbers (1-based) that return Err *)
let parse_sched (t : string) : bool list =
  if t = "-" then [] else
  let ns = List.map int_of_string (String.split_on_char ',' t) in
  let mx = List.fold_left max 0 ns in
  List.init mx (fun i -> List.mem (i + 1) ns)

let rec parse_expr (toks : string list Stdlib.ref) : fexpr =
  let next () = match !toks with t :: r -> toks := r; t | [] -> failwith "eof" in
  let rec times n f = if n = 0 then [] else let x = f () in x :: times (n - 1) f in
  match next () with
  | "T" -> let n = int_of_string (next ()) in FETable (times n (fun () -> parse_entry (next ())), [])
  | "L" -> let n = int_of_string (next ()) in FELazy (times n (fun () -> parse_entry (next ())), [])
  | "F" -> let n = int_of_string (next ()) in let sc = parse_sched (next ()) in
           FETable (times n (fun () -> parse_entry (next ())), sc)
  | "O" -> let n = int_of_string (next ()) in let sc = parse_sched (next ()) in
           FELazy (times n (fun () -> parse_entry (next ())), sc)
  | "K" | "G" -> let n = int_of_string (next ()) in
           FEMerge (times n (fun () -> let m = int_of_string (next ()) in FETable (times m (fun () -> parse_entry (next ())), [])))
  | "M" -> let n = int_of_string (next ()) in FEMerge (times n (fun () -> parse_expr toks))
  | "C" -> let n = int_of_string (next ()) in FEConcat (times n (fun () -> parse_expr toks))
  | "B" -> let lo = parse_bound (next ()) in let hi = parse_bound (next ()) in FEBounds (lo, hi, parse_expr toks)
  | "P" -> let t = n_of_dec (next ()) in FEPrune (t, parse_expr toks)
  | t -> failwith ("bad expr token " ^ t)

let parse_op (t : string) : op =
  match t with
  | "F" -> OFirst | "E" -> OLast | "N" -> ONext | "V" -> OPrev
  | _ -> OSeek (bytes_of_hex (String.sub t 2 (String.length t - 2)))

let show_entry (e : entry) : string =
  match e.ev with
  | Some v -> Printf.sprintf "%s@%s=%s" (hex_of_bytes e.ek) (dec_of_n e.ets) (hex_of_bytes v)
  | None -> Printf.sprintf "%s@%s~" (hex_of_bytes e.ek) (dec_of_n e.ets)

let show_fobs (os : fobs list) : string =
  let rec go acc = function
    | [] -> List.rev acc
    | FErr :: r -> go ("ERR" :: acc) r
    | FFail Panic :: _ -> List.rev ("PANIC" :: acc)
    | FFail LogicError :: r -> go ("ERR" :: acc) r
    | FFail OutOfFuel :: _ -> List.rev ("FUEL" :: acc)
    | FKV None :: r -> go ("-" :: acc) r
    | FKV (Some e) :: r -> go (show_entry e :: acc) r in
  String.concat " " (go [] os)

let show_obs (os : obs list) : string =
  let rec go acc = function
    | [] -> List.rev acc
    | (_, Some Panic) :: _ -> List.rev ("PANIC" :: acc)
    | (_, Some LogicError) :: _ -> List.rev ("ERR" :: acc)
    | (_, Some OutOfFuel) :: _ -> List.rev ("FUEL" :: acc)
    | (None, None) :: r -> go ("-" :: acc) r
    | (Some e, None) :: r -> go (show_entry e :: acc) r in
  String.concat " " (go [] os)

let words s = String.split_on_char ' ' s |> List.filter (fun x -> x <> "")

let () =
  try
    while true do
      let line = input_line stdin in
      let e_s, p_s = match String.index_opt line '|' with
        | Some i -> String.sub line 0 i, String.sub line (i + 1) (String.length line - i - 1)
        | None -> line, "" in
      let is_gc = (match words e_s with "G" :: _ -> true | _ -> false) in
      let toks = Stdlib.ref (words e_s) in
      let e = parse_expr toks in
      let prog = List.map parse_op (words p_s) in
      (* G: the observations start after seek_to_first(); clone(); next() *)
      let prog = if is_gc then OFirst :: ONext :: prog else prog in
      let drop2 l = if is_gc then (match l with _ :: _ :: r -> r | _ -> []) else l in
      (* once a node of the model is in its own failure state (only ever seen in dirty states: e.g.
         PruningCursor::prev's logic error, which the Rust returns as an ordinary Err and the model
         keeps as a sticky flag) the model claims nothing more: its output stops there *)
      let hs = fhealth_model e prog in
      let os = frun_model e prog in
      let rec cut os hs = match os, hs with
        | o :: r, true :: hr -> o :: cut r hr
        | _, false :: _ -> []
        | os, [] -> os
        | [], _ -> [] in
      let healthy_all = List.for_all (fun b -> b) hs in
      let os' = if healthy_all then os else cut os hs in
      let un = if healthy_all then "" else " UNHEALTHY" in
      print_endline (show_fobs (drop2 os') ^ un ^ " # " ^ show_obs (drop2 (run_spec (erase e) prog)))
    done
  with End_of_file -> ()
