(* mx_setsum: runs the extracted Setsum model on op lists read from stdin (one case per line).
   ops separated by ';' :  ins R HASHHEX | rem R HASHHEX | add R A B | sub R A B | fd R HEX |
   fh R HEX(ascii bytes) | out R.   Output per case: space separated hex / none / PANIC *)
open Gen_setsum

let rec pos_of_int (i : int) : positive =
  if i = 1 then XH else if i land 1 = 0 then XO (pos_of_int (i lsr 1)) else XI (pos_of_int (i lsr 1))
let n_of_int (i : int) : n = if i = 0 then N0 else Npos (pos_of_int i)
let rec int_of_pos = function XH -> 1 | XO p -> 2 * int_of_pos p | XI p -> 2 * int_of_pos p + 1
let int_of_n = function N0 -> 0 | Npos p -> int_of_pos p
let rec nat_of_int i = if i = 0 then O else S (nat_of_int (i - 1))

let bytes_of_hex (s : string) : n list =
  let l = String.length s / 2 in
  List.init l (fun i -> n_of_int (int_of_string ("0x" ^ String.sub s (2 * i) 2)))
let string_of_ns (l : n list) : string =
  String.concat "" (List.map (fun c -> String.make 1 (Char.chr (int_of_n c))) l)

let parse_op (s : string) : op =
  match String.split_on_char ' ' (String.trim s) |> List.filter (fun x -> x <> "") with
  | ["ins"; r; h] -> OIns (nat_of_int (int_of_string r), bytes_of_hex h)
  | ["rem"; r; h] -> ORem (nat_of_int (int_of_string r), bytes_of_hex h)
  | ["add"; r; a; b] -> OAdd (nat_of_int (int_of_string r), nat_of_int (int_of_string a), nat_of_int (int_of_string b))
  | ["sub"; r; a; b] -> OSub (nat_of_int (int_of_string r), nat_of_int (int_of_string a), nat_of_int (int_of_string b))
  | ["fd"; r; h] -> OFromDigest (nat_of_int (int_of_string r), bytes_of_hex h)
  | ["fh"; r; h] -> OFromHex (nat_of_int (int_of_string r), bytes_of_hex h)
  | ["fh"; r] -> OFromHex (nat_of_int (int_of_string r), [])
  | ["out"; r] -> OOut (nat_of_int (int_of_string r))
  | _ -> failwith ("bad op: " ^ s)

let () =
  try
    while true do
      let line = input_line stdin in
      if String.trim line = "" then print_endline ""
      else begin
        let ops = List.map parse_op (String.split_on_char ';' line |> List.filter (fun x -> String.trim x <> "")) in
        let outs = run_case ops in
        print_endline (String.concat " " (List.map (function
          | OutHex cs -> string_of_ns cs | OutNone -> "none" | OutPanic -> "PANIC") outs))
      end
    done
  with End_of_file -> ()
