(* mx_damage: runs the extracted damage model (Damage/ModelSst.v, ModelFiles.v, ModelOps.v) on the
   command language of harness/src/bin/c09.rs (the commands that read files):

     def ID HEX
     sst[v] ID PATCH | KEYHEX:TS:SIPHASH ...     (the SipHash-2-4 of each key is part of the query)
     blk[v] ID PATCH | KEYHEX:TS ...
     log[v] ID PATCH
     mani[v] ID PATCH
     schema                                      prints the field numbers of the message shapes

   The patch is turned into a list of `damage` values and applied by the extracted `damaged`.
   crc32c is implemented here natively and handed to the model as its `crc` parameter;
   partition_point is the count of leading smaller keys.  Output format as the harness. *)
open Gen_damage

let rec pos_of_int (i : int) : positive =
  if i = 1 then XH else if i land 1 = 0 then XO (pos_of_int (i lsr 1)) else XI (pos_of_int (i lsr 1))
let n_of_int (i : int) : n = if i = 0 then N0 else Npos (pos_of_int i)
let rec int_of_pos = function XH -> 1 | XO p -> 2 * int_of_pos p | XI p -> (2 * int_of_pos p) + 1
let int_of_n = function N0 -> 0 | Npos p -> int_of_pos p
let nbyte : n array = Array.init 256 n_of_int

let n_of_u64_string (s : string) : n =
  let v = Int64.of_string ("0u" ^ s) in
  let rec go (i : int) : positive option =
    if i > 63 then None
    else
      let hi = go (i + 1) in
      let bit = Int64.logand (Int64.shift_right_logical v i) 1L = 1L in
      match hi, bit with
      | None, false -> None
      | None, true -> Some XH
      | Some p, false -> Some (XO p)
      | Some p, true -> Some (XI p)
  in
  match go 0 with None -> N0 | Some p -> Npos p

let rec pos_to_int64 = function
  | XH -> 1L
  | XO p -> Int64.shift_left (pos_to_int64 p) 1
  | XI p -> Int64.logor (Int64.shift_left (pos_to_int64 p) 1) 1L
let int64_of_n = function N0 -> 0L | Npos p -> pos_to_int64 p
let dec_of_n (x : n) : string = Printf.sprintf "%Lu" (int64_of_n x)

let crc_table : int array =
  Array.init 256 (fun i ->
      let c = ref i in
      for _ = 0 to 7 do
        if !c land 1 = 1 then c := (!c lsr 1) lxor 0x82F63B78 else c := !c lsr 1
      done;
      !c)
let crc32c (l : n list) : n =
  let c = ref 0xFFFFFFFF in
  List.iter (fun b -> c := crc_table.((!c lxor int_of_n b) land 0xff) lxor (!c lsr 8)) l;
  n_of_int ((!c lxor 0xFFFFFFFF) land 0xFFFFFFFF)

let fnv_init = 0xcbf29ce484222325L
let fnv_byte (h : int64) (b : int) : int64 = Int64.mul (Int64.logxor h (Int64.of_int b)) 0x100000001b3L
let fnv_string (h : int64) (s : string) : int64 =
  let h = ref h in
  String.iter (fun c -> h := fnv_byte !h (Char.code c)) s;
  !h

let hexval c =
  match c with
  | '0' .. '9' -> Char.code c - 48
  | 'a' .. 'f' -> Char.code c - 87
  | 'A' .. 'F' -> Char.code c - 55
  | _ -> failwith "hex"

let bytes_of_hex (s : string) : n list =
  if s = "-" || s = "" then []
  else begin
    let l = String.length s / 2 in
    let r = ref [] in
    for i = l - 1 downto 0 do
      r := nbyte.((16 * hexval s.[2 * i]) + hexval s.[(2 * i) + 1]) :: !r
    done;
    !r
  end

let hex_of_ns (l : n list) : string =
  let b = Buffer.create (2 * List.length l) in
  List.iter (fun x -> Buffer.add_string b (Printf.sprintf "%02x" (int_of_n x))) l;
  Buffer.contents b

(* ---------------------------------------------------------------- accumulators (count:digest) *)
type acc = { verbose : bool; mutable n : int; mutable h : int64; mutable items : string list }
let acc_new verbose = { verbose; n = 0; h = fnv_init; items = [] }
let acc_push a s =
  a.n <- a.n + 1;
  a.h <- fnv_string (fnv_string a.h s) "\n";
  if a.verbose then a.items <- s :: a.items
let acc_show a =
  if a.verbose then Printf.sprintf "%d:%016Lx[%s]" a.n a.h (String.concat "," (List.rev a.items))
  else Printf.sprintf "%d:%016Lx" a.n a.h

let show_entry (k : n list) (ts : n) (v : n list option) : string =
  match v with
  | Some v -> Printf.sprintf "%s@%s=%s" (hex_of_ns k) (dec_of_n ts) (hex_of_ns v)
  | None -> Printf.sprintf "%s@%s~" (hex_of_ns k) (dec_of_n ts)

let serr_code = function
  | SFileTooSmall -> "corruption-file-too-small"
  | SUnpackFinalOffset -> "unpack-final-block-offset"
  | SFinalOffsetTooLarge -> "corruption-final-block-offset-too-large"
  | SUnpackFinal -> "unpack-final-block"
  | SMetaStartGteLimit -> "corruption-block-metadata-start-gte-limit"
  | SIndexPastFilter -> "corruption-index-block-runs-past-filter-block"
  | SFilterPastFinal -> "corruption-filter-block-runs-past-final-block"
  | SDataPastIndex -> "corruption-data-block-runs-past-index-block"
  | SSystem -> "system-error"
  | SUnpackTableEntry -> "unpack-table-entry"
  | SCrc -> "crc32c-failure"
  | SFilterAsPlain -> "corruption-tried-loading-filter-block-as-plain"
  | SFinalAsPlain -> "corruption-tried-loading-final-block-as-plain"
  | SPlainAsFilter -> "corruption-tried-loading-plain-block-as-filter"
  | SFinalAsFilter -> "corruption-tried-loading-final-block-as-filter"
  | SBadFilter -> "corruption-bad-filter-block"
  | SBlockTooSmall -> "block-too-small"
  | SUnpackRestarts -> "unpack-block-restarts"
  | SMetaNull -> "corruption-meta-block-null-value"
  | SUnpackMeta -> "unpack-block-metadata"
  | SZeroRestarts -> "corruption-block-with-zero-restarts"
  | SNoKvp -> "corruption-restart-point-no-key-value-pair"
  | SBinSearch -> "corruption-binary-search-left-ne-right"
  | SOffsetBoundary -> "corruption-offset-exceeds-restarts-boundary"
  | SUnpackKvp -> "unpack-key-value-pair"
  | SLogicRestartIdx -> "logic-error-restart-idx-exceeds-num-restarts"
  | SLogicNegRestart -> "logic-error-tried-taking-negative-restart-idx"

let sres_bad : 'a. 'a sres -> string = function
  | SOk _ -> "ok"
  | SErr e -> serr_code e
  | SPanic -> "PANIC"
  | SHuge -> "HUGE"
  | SFuel -> "FUEL"

let wend_str = function
  | WEnd -> "end"
  | WErr e -> serr_code e
  | WPanic -> "PANIC"
  | WHuge -> "HUGE"
  | WFuel -> "FUEL"

let get_str (r : (n list option * bool) sres) : string =
  match r with
  | SOk (Some v, _) -> "g=" ^ hex_of_ns v
  | SOk (None, true) -> "g~"
  | SOk (None, false) -> "g-"
  | bad -> "g!" ^ sres_bad bad

(* ---------------------------------------------------------------- patches *)
let parse_patch (p : string) : damage list =
  if p = "-" || p = "" then []
  else
    List.map
      (fun t ->
        let r = String.sub t 1 (String.length t - 1) in
        match t.[0] with
        | 'o' -> (
            match String.split_on_char ':' r with
            | [a; b] -> DOver (n_of_int (int_of_string a), n_of_int (int_of_string b))
            | _ -> failwith "o")
        | 'f' -> (
            match String.split_on_char ':' r with
            | [a; b] -> DFlip (n_of_int (int_of_string a), n_of_int (int_of_string b))
            | _ -> failwith "f")
        | 't' -> DTrunc (n_of_int (int_of_string r))
        | 'x' -> DExt (bytes_of_hex r)
        | _ -> failwith ("bad patch " ^ t))
      (String.split_on_char ',' p)

(* partition_point(|k| k < key) on sorted keys: the number of leading smaller keys *)
let rec pp_count (keys : n list list) (key : n list) : int =
  match keys with
  | [] -> 0
  | k :: r -> ( match lex_cmp k key with Lt -> 1 + pp_count r key | _ -> 0)
let pp keys key = n_of_int (pp_count keys key)

let words s = String.split_on_char ' ' (String.trim s) |> List.filter (fun x -> x <> "")

let reg : (string, n list) Hashtbl.t = Hashtbl.create 16

let split_bar (line : string) : string * string =
  match String.index_opt line '|' with
  | Some i -> (String.trim (String.sub line 0 i), String.trim (String.sub line (i + 1) (String.length line - i - 1)))
  | None -> (String.trim line, "")

let mani_err = function
  | ECorruption -> "corruption"
  | ENewline -> "newline-disallowed"
  | EDisallowed -> "string-disallowed"
  | EIo -> "io-error"
  | ESystem0 -> "system-error"

let log_err = function
  | EEmptyBatch -> "empty-batch"
  | ETableFull -> "table-full"
  | EKeyTooLarge -> "key-too-large"
  | EValueTooLarge -> "value-too-large"
  | ESystem -> "system-error"
  | EHeaderTooBig -> "corruption-header-size-exceeds-max"
  | EUnpackHeader -> "unpack-log-header"
  | ESizeExceedsMax -> "corruption-entry-size-exceeds-max"
  | ECrc -> "corruption-crc-checksum-failed"
  | ENoSecondHeader -> "corruption-truncation-no-second-header"
  | EBadDiscriminant -> "corruption-invalid-discriminant"
  | ETrueUp -> "corruption-true-up-exceeds-header-max"
  | EUnpackEntry -> "unpack-key-value-entry"
  | ESharedNotZero -> "corruption-shared-not-zero"

let rec msg_nums (m : msg) : string =
  match m with
  | MStruct fs -> "S[" ^ String.concat "," (List.map dec_of_n (flds_nums fs)) ^ "]"
  | MEnum vs -> "E[" ^ String.concat "," (List.map dec_of_n (vars_nums vs)) ^ "]"
  | MResult (_, _) -> "R"

let run (line : string) : string =
  let head, tail = split_bar line in
  match words head with
  | [ "def"; id ] ->
      Hashtbl.replace reg id [];
      "ok"
  | [ "def"; id; h ] ->
      Hashtbl.replace reg id (bytes_of_hex h);
      "ok"
  | [ "schema" ] ->
      Printf.sprintf "BM=%s FB=%s KVPUT=%s KVDEL=%s KVE=%s SSTENTRY=%s" (msg_nums bM) (msg_nums fB) (msg_nums kVPUT)
        (msg_nums kVDEL) (msg_nums kVE) (msg_nums sSTENTRY)
  | [ cmd; id; patch ] when cmd = "sst" || cmd = "sstv" ->
      let verbose = cmd = "sstv" in
      let f = damaged (parse_patch patch) (Hashtbl.find reg id) in
      let sips : (n list * n) list ref = ref [] in
      let queries =
        List.map
          (fun t ->
            match String.split_on_char ':' t with
            | [ k; ts; sip ] ->
                let kb = bytes_of_hex k in
                sips := (kb, n_of_u64_string sip) :: !sips;
                (kb, n_of_u64_string ts)
            | _ -> failwith "query KEY:TS:SIP")
          (words tail)
      in
      let sip (k : n list) : n = try List.assoc k !sips with Not_found -> N0 in
      let o = sst_case crc32c sip pp f queries in
      begin
        match o.so_open with
        | SOk () ->
            let (((setsum, small), big), size) = o.so_meta in
            let meta =
              match o.so_first with
              | SOk (k, z) ->
                  Printf.sprintf "meta:%s:%s:%s:%s:%s:%s" (hex_of_ns k) (hex_of_ns z) (dec_of_n small) (dec_of_n big) (hex_of_ns setsum)
                    (dec_of_n size)
              | bad -> "meta!" ^ sres_bad bad
            in
            let es, w = o.so_walk in
            let a = acc_new verbose in
            List.iter (fun ((k, ts), v) -> acc_push a (show_entry k ts v)) es;
            let es2, w2 = o.so_back in
            let a2 = acc_new verbose in
            List.iter (fun ((k, ts), v) -> acc_push a2 (show_entry k ts v)) es2;
            String.concat " "
              ([ "open:ok"; meta; Printf.sprintf "fw:%s!%s" (acc_show a) (wend_str w);
                 Printf.sprintf "bw:%s!%s" (acc_show a2) (wend_str w2) ] @ List.map get_str o.so_gets)
        | bad -> "open!" ^ sres_bad bad
      end
  | [ cmd; id; patch ] when cmd = "blk" || cmd = "blkv" ->
      let verbose = cmd = "blkv" in
      let f = damaged (parse_patch patch) (Hashtbl.find reg id) in
      let queries =
        List.map
          (fun t ->
            match String.split_on_char ':' t with
            | k :: ts :: _ -> (bytes_of_hex k, n_of_u64_string ts)
            | _ -> failwith "query KEY:TS")
          (words tail)
      in
      begin
        match block_case f queries with
        | SOk (((es, w), (es2, w2)), gets) ->
            let a = acc_new verbose in
            List.iter (fun ((k, ts), v) -> acc_push a (show_entry k ts v)) es;
            let a2 = acc_new verbose in
            List.iter (fun ((k, ts), v) -> acc_push a2 (show_entry k ts v)) es2;
            String.concat " "
              ([ "new:ok"; Printf.sprintf "fw:%s!%s" (acc_show a) (wend_str w); Printf.sprintf "bw:%s!%s" (acc_show a2) (wend_str w2) ]
               @ List.map get_str gets)
        | bad -> "new!" ^ sres_bad bad
      end
  | [ cmd; id; patch ] when cmd = "log" || cmd = "logv" ->
      let verbose = cmd = "logv" in
      let f = damaged (parse_patch patch) (Hashtbl.find reg id) in
      let es, r = log_case crc32c f in
      let a = acc_new verbose in
      List.iter (fun e -> acc_push a (show_entry e.e_key e.e_ts e.e_val)) es;
      Printf.sprintf "it:%s!%s" (acc_show a) (match r with REnd -> "end" | RErr e -> log_err e | RFuel -> "FUEL")
  | [ cmd; id; patch ] when cmd = "mani" || cmd = "maniv" ->
      let verbose = cmd = "maniv" in
      let f = damaged (parse_patch patch) (Hashtbl.find reg id) in
      let edits, x = mani_iter_case crc32c f in
      let a = acc_new verbose in
      let infos l = String.concat ";" (List.map (fun (c, v) -> Printf.sprintf "%s:%s" (dec_of_n c) (hex_of_ns v)) l) in
      List.iter
        (fun e ->
          acc_push a
            (Printf.sprintf "{%s/%s/%s}"
               (String.concat ";" (List.map hex_of_ns e.e_add))
               (String.concat ";" (List.map hex_of_ns e.e_rm))
               (infos e.e_info)))
        edits;
      let it = Printf.sprintf "it:%s!%s" (acc_show a) (match x with None -> "end" | Some e -> mani_err e) in
      let op =
        match mani_open_case crc32c f with
        | Ok0 st ->
            let s = Printf.sprintf "{%s/%s}" (String.concat ";" (List.map hex_of_ns st.s_strs)) (infos st.s_info) in
            if verbose then "op:" ^ s else Printf.sprintf "op:%016Lx" (fnv_string fnv_init s)
        | Err0 e -> "op!" ^ mani_err e
        | Panic0 -> "op!PANIC"
      in
      it ^ " " ^ op
  | _ -> failwith ("bad command: " ^ line)

let () =
  try
    while true do
      let line = input_line stdin in
      if String.trim line = "" then print_newline ()
      else begin
        (try print_string (run line) with
         | Stack_overflow -> print_string "MODEL-STACK-OVERFLOW"
         | Failure m -> print_string ("MODEL-FAILURE " ^ m));
        print_newline ()
      end
    done
  with End_of_file -> ()
