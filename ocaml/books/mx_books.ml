(* mx_books: runs the extracted Books model (setsum bookkeeping of lsmtk manifest transactions and
   the offline verifier) as a co-process of checks/c04.py.  One command per line, one answer line.

     h ITEMHEX DIGESTHEX             register SHA3-256(item) (computed by Python's hashlib)   -> ok
     c ENTS | KEYREFS                register the collector's answer for a merged input        -> ok
     new                             open_fresh                                                -> ok
     flush L ROLL ENTS               BFlush (ENTS in write order)                              -> step answer
     ingest ROLL ENTS                LsmTree::ingest of an external sst (ENTS sorted)          -> step answer
     compact ROLL NAMES LENS         BCompact                                                  -> step answer
     gc ROLL NAMES LENS              BGc                                                       -> step answer
     move NAME                       BMove                                                     -> step answer
     reopen ROLL ENTS                BReopen                                                   -> step answer
     reopenlogs ROLL ENTS | ...      BReopenLogs (one group per log)                           -> step answer
     state                           -> S O=.. I=.. D=.. L=.. strs=a,b tree=a,b nfrag=n
     frags                           -> F frag;frag  (frag = edit|edit, edit = I O D L +a,b -c,d)
     verify K                        verify_frags over the first K fragments from acc 0, disk = every
                                     file the model store ever held                            -> V ok ACC | V err CODE
     file NAME ENTS                  put/replace a file on the verifier's disk                 -> ok
     rmfile NAME                                                                               -> ok
     v1 ACC | RAWFRAG                verify_one on raw edits                                   -> V1 ok ACC rm=.. logs=.. | V1 err CODE
     mv | RAWFRAG                    manifest_verify                                           -> MV ok n | MV err CODE
   step answer: "ok acc=0|1" | "err CODE acc=.." | "panic acc=.."
   names/digests: 64 hex chars; ENTS: k:ts:v tokens separated by ',' ('-' = none; key '-' empty,
   value '~' tombstone); KEYREFS: k:ts,...; LENS: n,n,.. or '-';
   RAWFRAG: edits separated by '|', edit = "I:s O:s D:s L:s A:s,s R:s,s" where every s is the hex of
   the string's bytes and '-' means absent (info) / empty list. *)
open Gen_books

let rec pos_of_int (i : int) : positive =
  if i = 1 then XH else if i land 1 = 0 then XO (pos_of_int (i lsr 1)) else XI (pos_of_int (i lsr 1))
let n_of_int (i : int) : n = if i = 0 then N0 else Npos (pos_of_int i)
let rec int_of_pos = function XH -> 1 | XO p -> 2 * int_of_pos p | XI p -> 2 * int_of_pos p + 1
let int_of_n = function N0 -> 0 | Npos p -> int_of_pos p
let rec nat_of_int i = if i = 0 then O else S (nat_of_int (i - 1))
let n_of_dec (s : string) : n =
  let rec go acc i = if i = String.length s then acc
    else go (N.add (N.mul acc (n_of_int 10)) (n_of_int (Char.code s.[i] - 48))) (i + 1) in
  go N0 0
let dec_of_n (x : n) : string =
  let rec digits x acc =
    match x with
    | N0 -> acc
    | _ -> let (q, r) = N.div_eucl x (n_of_int 10) in digits q (string_of_int (int_of_n r) ^ acc) in
  match x with N0 -> "0" | _ -> digits x ""

let bytes_of_hex (s : string) : n list =
  if s = "-" then [] else
  List.init (String.length s / 2) (fun i -> n_of_int (int_of_string ("0x" ^ String.sub s (2 * i) 2)))
let hex_of_bytes (l : n list) : string =
  if l = [] then "-" else String.concat "" (List.map (fun c -> Printf.sprintf "%02x" (int_of_n c)) l)
let hex_of_bytes0 (l : n list) : string = String.concat "" (List.map (fun c -> Printf.sprintf "%02x" (int_of_n c)) l)
let string_of_chars (l : n list) : string = String.concat "" (List.map (fun c -> String.make 1 (Char.chr (int_of_n c))) l)

let split c s = List.filter (fun x -> x <> "" && x <> "-") (String.split_on_char c s)

let state_of_hex (s : string) : state = from_digest (bytes_of_hex s)
let hex_of_state (s : state) : string = string_of_chars (hexdigest s)

let parse_entry (s : string) : entry =
  match String.split_on_char ':' s with
  | [k; t; v] -> { ek = bytes_of_hex k; ets = n_of_dec t; ev = (if v = "~" then None else Some (bytes_of_hex v)) }
  | _ -> failwith ("bad entry " ^ s)
let parse_entries (s : string) : entry list = List.map parse_entry (split ',' s)
let show_entry (e : entry) : string =
  hex_of_bytes e.ek ^ ":" ^ dec_of_n e.ets ^ ":" ^ (match e.ev with None -> "~" | Some v -> hex_of_bytes v)
let show_entries (es : entry list) : string = String.concat "," (List.map show_entry es)

(* ---- the hash and the collector: tables filled by the check ---- *)
let hashes : (string, n list) Hashtbl.t = Hashtbl.create 4096
let missing = ref 0
let h (item : n list) : n list =
  match Hashtbl.find_opt hashes (hex_of_bytes0 item) with
  | Some d -> d
  | None -> incr missing; List.init 32 (fun _ -> N0)
let colls : (string, (n list * n) list) Hashtbl.t = Hashtbl.create 64
(* The collector is external code for the model (sst/src/gc.rs, C05's subject).  The check registers
   the answers for the inputs of the real GCs (command `c`); for other inputs (files tampered in
   place) the driver evaluates `versions = n` itself: a value is kept while the key's cumulative
   weight (2 directly under a tombstone, else 1) is <= n, and keeps the tombstone directly above. *)
let versions = ref 1
let coll_versions (input : entry list) : (n list * n) list =
  let arr = Array.of_list input in
  let len = Array.length arr in
  let keep = Array.make len false in
  let i = ref 0 in
  while !i < len do
    let j = ref !i in
    while !j < len && arr.(!j).ek = arr.(!i).ek do incr j done;
    let w = ref 0 in
    for x = !i to !j - 1 do
      if arr.(x).ev <> None then begin
        let under = x > !i && arr.(x - 1).ev = None in
        w := !w + (if under then 2 else 1);
        if !w <= !versions then begin keep.(x) <- true; if under then keep.(x - 1) <- true end
      end
    done;
    i := !j
  done;
  List.filteri (fun x _ -> keep.(x)) input |> List.map (fun e -> (e.ek, e.ets))
let coll (input : entry list) : (n list * n) list =
  match Hashtbl.find_opt colls (show_entries input) with
  | Some l -> l
  | None -> coll_versions input

let code_name = function
  | CMissing -> "missing" | CBadInfo -> "bad-info" | CNoContinue -> "no-continue" | CNoBalance -> "no-balance"
  | CBadAdded -> "bad-added" | CBadRmed -> "bad-rmed" | CBadL -> "bad-l" | CBadDiscard -> "bad-discard"
  | CBadOutput -> "bad-output" | CGcDiscard -> "gc-discard" | CDataLoss -> "data-loss"
  | CDataConstruction -> "data-construction" | CGcLogic -> "gc-logic" | CNotFound -> "not-found" | CBadSst -> "bad-sst"
  | CDuplicate -> "duplicate" | CStoreBalance -> "store-balance" | CMemtable -> "memtable" | CTreeMani -> "tree-mani"

let b x = if x then "1" else "0"
let names_str l = String.concat "," (List.sort compare (List.map hex_of_state l))

let show_txn (t : txn) : string =
  Printf.sprintf "%s %s %s %s +%s -%s" (hex_of_state t.tI) (hex_of_state t.tO) (hex_of_state t.tD)
    (match t.tL with None -> "-" | Some l -> dec_of_n l) (names_str t.tadds) (names_str t.trms)

let parse_raw_edit (s : string) : rtxn =
  let fields = List.filter (fun x -> x <> "") (String.split_on_char ' ' (String.trim s)) in
  let get k = List.find_map (fun f -> if String.length f >= 2 && f.[0] = k && f.[1] = ':' then Some (String.sub f 2 (String.length f - 2)) else None) fields in
  let info k = match get k with None | Some "-" -> None | Some x -> Some (bytes_of_hex x) in
  let lst k = match get k with None | Some "-" -> [] | Some x -> List.map bytes_of_hex (List.filter (fun y -> y <> "") (String.split_on_char ',' x)) in
  let l = match get 'L' with
    | None | Some "-" -> None
    | Some x ->
      (* u64::from_str: decimal digits, an optional leading '+', below 2^64 *)
      let str = string_of_chars (bytes_of_hex x) in
      let str' = if String.length str > 0 && str.[0] = '+' then String.sub str 1 (String.length str - 1) else str in
      let ok = String.length str' > 0 && String.length str' <= 30 && String.for_all (fun ch -> ch >= '0' && ch <= '9') str' in
      if not ok then Some None else
        let v = n_of_dec str' in
        let max = n_of_dec "18446744073709551616" in
        (match N.div_eucl v max with (N0, _) -> Some (Some v) | _ -> Some None) in
  { rI = info 'I'; rO = info 'O'; rD = info 'D'; rL = l; radds = lst 'A'; rrms = lst 'R' }
let parse_raw_frag (s : string) : rtxn list =
  List.map parse_raw_edit (List.filter (fun x -> String.trim x <> "") (String.split_on_char '|' s))

let () =
  let s = ref open_fresh in
  (* the verifier's disk: the model store's bdisk with the check's overrides (tampered files) *)
  let over : bfile list ref = ref [] in
  let gone : state list ref = ref [] in
  let disk () = !over @ List.filter (fun f -> not (List.exists (fun g -> state_eqb g.bsum f.bsum) !over)
                                              && not (List.exists (fun x -> state_eqb x f.bsum) !gone)) !s.bdisk in
  let note_tree () = () in
  let step o =
    let acc = accepted h coll !s o in
    (match bstep h coll !s o with
     | Ok s' -> s := s'; note_tree (); Printf.printf "ok acc=%s miss=%d\n" (b acc) !missing
     | Err c -> Printf.printf "err %s acc=%s miss=%d\n" (code_name c) (b acc) !missing
     | Panic -> Printf.printf "panic acc=%s miss=%d\n" (b acc) !missing) in
  let lens s = if s = "-" then [] else List.map (fun x -> nat_of_int (int_of_string x)) (split ',' s) in
  let nm s = List.map state_of_hex (split ',' s) in
  try
    while true do
      let line = String.trim (input_line stdin) in
      if line <> "" then begin
        let (cmd, rest) = match String.index_opt line ' ' with
          | Some i -> (String.sub line 0 i, String.trim (String.sub line (i + 1) (String.length line - i - 1)))
          | None -> (line, "") in
        let words = List.filter (fun x -> x <> "") (String.split_on_char ' ' rest) in
        let w i = try List.nth words i with _ -> "-" in
        (match cmd with
         | "h" -> Hashtbl.replace hashes (w 0) (bytes_of_hex (w 1)); print_endline "ok"
         | "c" ->
           (match String.split_on_char '|' rest with
            | [es; ks] ->
              let krs = List.map (fun t -> match String.split_on_char ':' t with
                  | [k; ts] -> (bytes_of_hex k, n_of_dec ts) | _ -> failwith "bad keyref") (split ',' (String.trim ks)) in
              Hashtbl.replace colls (show_entries (parse_entries (String.trim es))) krs; print_endline "ok"
            | _ -> print_endline "bad")
         | "policy" -> versions := int_of_string (w 0); print_endline "ok"
         | "new" -> s := open_fresh; over := []; gone := []; missing := 0; print_endline "ok"
         | "flush" -> step (BFlush (parse_entries (w 2), n_of_dec (w 0), w 1 = "1"))
         | "ingest" -> step (BIngest (parse_entries (w 1), w 0 = "1"))
         | "compact" -> step (BCompact (nm (w 1), lens (w 2), w 0 = "1"))
         | "gc" -> step (BGc (nm (w 1), lens (w 2), w 0 = "1"))
         | "move" -> step (BMove (state_of_hex (w 0)))
         | "reopen" -> step (BReopen (parse_entries (w 1), w 0 = "1"))
         | "reopenlogs" ->
           (* reopenlogs ROLL ENTS | ROLL ENTS | ...   one group per log, in the order of the log numbers *)
           let groups = List.filter (fun g -> String.trim g <> "") (String.split_on_char '|' rest) in
           let logs = List.map (fun g ->
               match List.filter (fun x -> x <> "") (String.split_on_char ' ' (String.trim g)) with
               | [r; es] -> (parse_entries es, r = "1")
               | [r] -> ([], r = "1")
               | _ -> failwith "bad log group") groups in
           step (BReopenLogs logs)
         | "state" ->
           let m = !s.bman in
           Printf.printf "S O=%s I=%s D=%s L=%s strs=%s tree=%s nfrag=%d sum=%s\n" (hex_of_state m.mO) (hex_of_state m.mI) (hex_of_state m.mD)
             (match m.mL with None -> "-" | Some l -> dec_of_n l) (names_str m.mstrs) (names_str (names !s.btree))
             (List.length (fragments !s)) (hex_of_state (compute_setsum !s.btree))
         | "frags" ->
           (* fragments from index K on (0-based); "F n frag;frag" with n the total number *)
           let k = if w 0 = "-" then 0 else int_of_string (w 0) in
           let frs = fragments !s in
           print_endline ("F " ^ string_of_int (List.length frs) ^ " " ^
                          String.concat ";" (List.map (fun fr -> String.concat "|" (List.map show_txn fr)) (List.filteri (fun i _ -> i >= k) frs)))
         | "files" ->
           print_endline ("T " ^ String.concat ";" (List.map (fun f -> hex_of_state f.bsum ^ "=" ^ hex_of_state (builder_setsum h f.bents) ^ "=" ^ show_entries f.bents) !s.btree))
         | "verify" ->
           let k = int_of_string (w 0) in
           let frs = List.filteri (fun i _ -> i < k) (rfragments !s) in
           (match verify_frags h coll (disk ()) frs zero with
            | Ok acc -> Printf.printf "V ok %s miss=%d\n" (hex_of_state acc) !missing
            | Err c -> Printf.printf "V err %s miss=%d\n" (code_name c) !missing
            | Panic -> print_endline "V panic")
         | "file" ->
           let x = state_of_hex (w 0) in
           over := { bsum = x; bents = parse_entries (w 1) } :: List.filter (fun f -> not (state_eqb f.bsum x)) !over;
           gone := List.filter (fun y -> not (state_eqb y x)) !gone;
           print_endline "ok"
         | "rmfile" ->
           let x = state_of_hex (w 0) in
           over := List.filter (fun f -> not (state_eqb f.bsum x)) !over; gone := x :: !gone; print_endline "ok"
         | "reset" -> over := []; gone := []; print_endline "ok"
         | "v1" ->
           (match String.index_opt rest '|' with
            | Some i ->
              let acc = state_of_hex (String.trim (String.sub rest 0 i)) in
              let fr = parse_raw_frag (String.sub rest (i + 1) (String.length rest - i - 1)) in
              (match verify_one h coll (disk ()) fr acc with
               | Ok ((a, rm), logs) ->
                 Printf.printf "V1 ok %s rm=%s logs=%s miss=%d\n" (hex_of_state a) (String.concat "," (List.map hex_of_state rm))
                   (String.concat "," (List.map dec_of_n logs)) !missing
               | Err c -> Printf.printf "V1 err %s miss=%d\n" (code_name c) !missing
               | Panic -> print_endline "V1 panic")
            | None -> print_endline "bad")
         | "mv" ->
           (match String.index_opt rest '|' with
            | Some i ->
              let fr = parse_raw_frag (String.sub rest (i + 1) (String.length rest - i - 1)) in
              (match manifest_verify fr with
               | Ok l -> Printf.printf "MV ok %d\n" (List.length l)
               | Err c -> Printf.printf "MV err %s\n" (code_name c)
               | Panic -> print_endline "MV panic")
            | None -> print_endline "bad")
         | _ -> print_endline ("bad " ^ cmd));
        Stdlib.flush stdout
      end
    done
  with End_of_file -> ()
