(* mx_scan: a copy of ocaml/lsm/mx_lsm.ml (replays a recorded history of the real store on the
   extracted Coq model, op by op) over the extraction of the Scan area, plus range scans.
   Input (one command per line):
     H n                              fresh store, sequence counter n
     W k=v,k=~,...                    write batch                 -> "W acc"
     F id sz                          flush                       -> "F e,e,e" (entries of the new file)
     C lo up first last ids | files   compaction chosen + outputs -> "C valid outok wf <shape slice rest range closed ids> gcok is_gc accepted"
     R id sz seq | levels             reopen into given version   -> "R sub1 sub2 wf ord ts"
     G k,k,...                        point reads                 -> "G v v v"
     V                                                            -> "V l0ids/l1ids/... wf ord"
     S lo hi prog                     run_scan on the model store            -> "S o0 o1 ... on"
     L lo hi prog                     run_live (reference cursor over live_spec) -> "L o0 ... on"
     T lo hi prog                     run_tree_scan on the store's version   -> "T o0 ... on"
     D lo hi prog   -> "D o0 .. on"  run_scan_dup: the snapshot taken while the memtable is being flushed and its sst is already in the tree (every pair of the immutable memtable merged twice)
     Q                                sequence counter                       -> "Q <seq>"
   keys/values hex ('-' empty), entry = key.ts.val ('~' tombstone), file = id:sz:e,e  files ';' levels '/'
   bounds: U | I<hex> | E<hex> (I- / E- = the empty key); prog: comma list of F L N P S<hex>, `_` = empty program
   observation: `.` (no key) | <keyhex>=<valhex> (`~` = tombstone value), suffix !P / !L / !F when
   the failure component is Some Panic / LogicError / OutOfFuel *)
open Gen_scan

let rec pos_of_int (i : int) : positive =
  if i = 1 then XH else if i land 1 = 0 then XO (pos_of_int (i lsr 1)) else XI (pos_of_int (i lsr 1))
let n_of_int (i : int) : n = if i = 0 then N0 else Npos (pos_of_int i)
let rec int_of_pos = function XH -> 1 | XO p -> 2 * int_of_pos p | XI p -> 2 * int_of_pos p + 1
let int_of_n = function N0 -> 0 | Npos p -> int_of_pos p
let rec nat_of_int i = if i = 0 then O else S (nat_of_int (i - 1))
(* decimal strings up to 2^64 need more than OCaml's 63-bit int: parse through Int64/unsigned *)
let n_of_dec (s : string) : n =
  let rec go acc i = if i = String.length s then acc
    else go (N.add (N.mul acc (n_of_int 10)) (n_of_int (Char.code s.[i] - 48))) (i + 1) in
  go N0 0
let rec dec_of_n (x : n) : string =
  (* small helper: repeated division by 10 on N *)
  let rec digits x acc =
    match x with
    | N0 -> acc
    | _ -> let (q, r) = N.div_eucl x (n_of_int 10) in digits q (string_of_int (int_of_n r) ^ acc) in
  match x with N0 -> "0" | _ -> digits x ""

let bytes_of_hex (s : string) : n list =
  if s = "-" then [] else
  List.init (String.length s / 2) (fun i -> n_of_int (int_of_string ("0x" ^ String.sub s (2 * i) 2)))
let hex_of_bytes (l : n list) : string =
  if l = [] then "-" else String.concat "" (List.map (fun c -> Printf.sprintf "%02x" (int_of_n c)) l)

let split c s = List.filter (fun x -> x <> "") (String.split_on_char c s)

let parse_entry (s : string) : entry =
  match String.split_on_char '.' s with
  | [k; t; v] -> { ek = bytes_of_hex k; ets = n_of_dec t; ev = (if v = "~" then None else Some (bytes_of_hex v)) }
  | _ -> failwith ("bad entry " ^ s)
let show_entry (e : entry) : string =
  hex_of_bytes e.ek ^ "." ^ dec_of_n e.ets ^ "." ^ (match e.ev with None -> "~" | Some v -> hex_of_bytes v)
let parse_file (s : string) : file =
  match String.split_on_char ':' s with
  | [id; sz; es] -> { fid = n_of_dec id; fents = List.map parse_entry (split ',' es); fsize = n_of_dec sz }
  | [id; sz] -> { fid = n_of_dec id; fents = []; fsize = n_of_dec sz }
  | _ -> failwith ("bad file " ^ s)
let parse_files (s : string) : file list = List.map parse_file (split ';' (String.trim s))
let parse_levels (s : string) : file list list =
  List.map (fun l -> parse_files l) (String.split_on_char '/' s)

let parse_bound (s : string) : bound =
  let rest = String.sub s 1 (String.length s - 1) in
  match s.[0] with
  | 'U' -> Unbounded
  | 'I' -> Included (bytes_of_hex rest)
  | 'E' -> Excluded (bytes_of_hex rest)
  | _ -> failwith ("bad bound " ^ s)
let parse_prog (s : string) : op0 list =
  if s = "_" then [] else
  List.map (fun st ->
      match st.[0] with
      | 'F' -> OFirst
      | 'L' -> OLast
      | 'N' -> ONext
      | 'P' -> OPrev
      | 'S' -> OSeek (bytes_of_hex (String.sub st 1 (String.length st - 1)))
      | _ -> failwith ("bad step " ^ st)) (split ',' s)
let show_obs (o : obs) : string =
  let (kv, f) = o in
  (match kv with
   | None -> "."
   | Some e -> hex_of_bytes e.ek0 ^ "@" ^ dec_of_n e.ets0 ^ "=" ^ (match e.ev0 with None -> "~" | Some v -> hex_of_bytes v))
  ^ (match f with None -> "" | Some Panic -> "!P" | Some LogicError -> "!L" | Some OutOfFuel -> "!F")
let scan_args (rest : string) =
  match split ' ' rest with
  | [lo; hi; prog] -> (parse_bound lo, parse_bound hi, parse_prog prog)
  | _ -> failwith ("bad scan " ^ rest)
let show_run (tag : string) (l : obs list) : string = tag ^ " " ^ String.concat " " (List.map show_obs l)

let b x = if x then "1" else "0"

let () =
  let s : store Stdlib.ref = Stdlib.ref (init_at N0) in  (* Gen_scan shadows `ref` (the reference cursor) *)
  try
    while true do
      let line = input_line stdin in
      let line = String.trim line in
      if line <> "" then begin
        let cmd = line.[0] in
        let rest = String.trim (String.sub line 1 (String.length line - 1)) in
        (match cmd with
         | 'H' -> s := init_at (n_of_dec rest); print_endline "H"
         | 'W' ->
           let batch = List.map (fun kv -> match String.split_on_char '=' kv with
               | [k; v] -> (bytes_of_hex k, (if v = "~" then None else Some (bytes_of_hex v)))
               | _ -> failwith "bad kv") (split ',' rest) in
           let o = OWrite batch in
           let acc = acceptedb !s o in
           s := step !s o;
           print_endline ("W " ^ b acc)
         | 'F' ->
           (match split ' ' rest with
            | [id; sz] ->
              let before = !s in
              s := step !s (OFlush (n_of_dec id, n_of_dec sz));
              let es = sort_entries before.mem in
              print_endline ("F " ^ String.concat "," (List.map show_entry es))
            | _ -> failwith "bad F")
         | 'C' ->
           (match String.split_on_char '|' rest with
            | [hd; outs] ->
              (match split ' ' hd with
               | [lo; up; fk; lk; ids] ->
                 let c = { clower = nat_of_int (int_of_string lo); cupper = nat_of_int (int_of_string up);
                           cfirst = bytes_of_hex fk; clast = bytes_of_hex lk;
                           cinputs = List.map n_of_dec (split ',' ids) } in
                 let outs = parse_files outs in
                 let v = !s.ver in
                 let valid = valid_compactionb v c in
                 let outok = outputs_okb v c outs in
                 let gcok = gc_outputs_okb v c outs in
                 let wf = wf_versionb (apply_compaction v c outs) in
                 (* a merge into the last level that is not the plain sorted merge is a GC step *)
                 let is_gc = (not outok) && (int_of_string up + 1 = List.length v) in
                 let o = if is_gc then OGc (c, outs) else OCompact (c, outs) in
                 let acc = acceptedb !s o in
                 s := step !s o;
                 print_endline ("C " ^ b valid ^ " " ^ b outok ^ " " ^ b wf ^ " " ^ b (vc_shape v c) ^ b (vc_slice v c)
                                ^ b (vc_rest v c) ^ b (vc_range v c) ^ b (vc_closed v c) ^ b (vc_ids v c)
                                ^ " " ^ b gcok ^ " " ^ b is_gc ^ " " ^ b acc)
               | _ -> failwith "bad C head")
            | _ -> failwith "bad C")
         | 'R' ->
           (match String.split_on_char '|' rest with
            | [hd; lv] ->
              (match split ' ' hd with
               | [id; sz; sq] ->
                 let v' = parse_levels lv in
                 let seq' = n_of_dec sq in
                 let s1 = flush !s (n_of_dec id) (n_of_dec sz) in
                 let sub1 = subsetb (file_entries s1.ver) (file_entries v') in
                 let sub2 = subsetb (file_entries v') (file_entries s1.ver) in
                 let wf = wf_versionb v' in
                 let s' = { mem = []; ver = v'; seq = seq' } in
                 let ord = orderedb s' in
                 let acc = acceptedb !s (OReopen (n_of_dec id, n_of_dec sz, v', seq')) in
                 s := step !s (OReopen (n_of_dec id, n_of_dec sz, v', seq'));
                 print_endline ("R " ^ b sub1 ^ " " ^ b sub2 ^ " " ^ b wf ^ " " ^ b ord ^ " " ^ b acc)
               | _ -> failwith "bad R head")
            | _ -> failwith "bad R")
         | 'G' ->
           let ks = split ',' rest in
           print_endline ("G " ^ String.concat " " (List.map (fun k ->
               match get !s (bytes_of_hex k) with None -> "." | Some v -> hex_of_bytes v) ks))
         | 'V' ->
           let v = !s.ver in
           print_endline ("V " ^ String.concat "/" (List.map (fun lv -> String.concat "," (List.map (fun f -> dec_of_n f.fid) lv)) v)
                          ^ " " ^ b (wf_versionb v) ^ " " ^ b (orderedb !s))
         | 'S' -> let (lo, hi, prog) = scan_args rest in print_endline (show_run "S" (run_scan !s lo hi prog))
         | 'L' -> let (lo, hi, prog) = scan_args rest in print_endline (show_run "L" (run_live !s lo hi prog))
         | 'T' -> let (lo, hi, prog) = scan_args rest in print_endline (show_run "T" (run_tree_scan !s.ver lo hi prog))
         | 'D' -> let (lo, hi, prog) = scan_args rest in print_endline (show_run "D" (run_scan_dup !s lo hi prog))
         | 'Q' -> print_endline ("Q " ^ dec_of_n !s.seq)
         | _ -> failwith ("bad command " ^ line));
      end
    done
  with End_of_file -> ()
