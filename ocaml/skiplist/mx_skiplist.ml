(* mx_skiplist: runs the extracted skiplist / prepend-list models on a recorded schedule.
   Input line:   S | MAXH | prog / prog / .. | t t t ..        (skiplist)
                 L | 0    | prog / prog / .. | t t t ..        (prepend list)
   prog as in harness/src/bin/c17.rs.  Output:  events | outs | final | OK or STUCK@i
   in exactly the textual form the harness prints, so that the two can be compared as strings. *)
open Gen_skiplist

let rec nat_of_int i = if i <= 0 then O else S (nat_of_int (i - 1))
let rec int_of_nat = function O -> 0 | S n -> 1 + int_of_nat n
let rec pos_of_int (i : int) : positive =
  if i = 1 then XH else if i land 1 = 0 then XO (pos_of_int (i lsr 1)) else XI (pos_of_int (i lsr 1))
let n_of_int (i : int) : n = if i = 0 then N0 else Npos (pos_of_int i)
let rec int_of_pos = function XH -> 1 | XO p -> 2 * int_of_pos p | XI p -> 2 * int_of_pos p + 1
let int_of_n = function N0 -> 0 | Npos p -> int_of_pos p

(* decimal strings <-> N, for keys up to 2^64-1 (beyond OCaml's int) *)
let n_of_string (s : string) : n =
  let ten = n_of_int 10 in
  let r = ref N0 in
  String.iter (fun c -> r := N.add (N.mul !r ten) (n_of_int (Char.code c - 48))) s;
  !r
let string_of_n (x : n) : string =
  let ten = n_of_int 10 in
  let rec go x acc =
    let (q, r) = N.div_eucl x ten in
    let acc = string_of_int (int_of_n r) ^ acc in
    if q = N0 then acc else go q acc in
  go x ""

let split c s = String.split_on_char c s |> List.map String.trim |> List.filter (fun x -> x <> "")
let tail1 s = String.sub s 1 (String.length s - 1)

let parse_op (s : string) : op =
  match s.[0] with
  | 'i' -> (match String.split_on_char ':' (tail1 s) with
            | [k; h] -> OInsert (n_of_string k, nat_of_int (int_of_string h))
            | [k] -> OInsert (n_of_string k, O)
            | _ -> failwith "bad insert")
  | 'c' -> OContains (n_of_string (tail1 s))
  | 's' -> OSeek (n_of_string (tail1 s))
  | 'F' -> OFirst | 'L' -> OLast | 'N' -> ONext | 'P' -> OPrev
  | _ -> failwith ("bad op " ^ s)

let parse_lop (s : string) : lop =
  match s.[0] with
  | 'p' -> LPrepend (n_of_string (tail1 s))
  | 'T' -> LIter
  | _ -> failwith ("bad list op " ^ s)

let ptr_s = function None -> "-" | Some n -> string_of_int (int_of_nat n)

let res_s = function
  | RIns k -> "I" ^ string_of_n k
  | RContains (_, b) -> if b then "B1" else "B0"
  | RSeek (_, r) | RFirst r | RNext (_, r) | RPrev (_, r) ->
      (match r with None -> "K-" | Some k -> "K" ^ string_of_n k)
  | RLast -> "K-"
  | RPanic -> "PANIC"

let lres_s = function
  | LRPrepended d -> "P" ^ string_of_n d
  | LRList l -> "L" ^ String.concat "." (List.map string_of_n l)
  | LRPanic -> "PANIC"

let progs_of body f = List.map (fun p -> List.map f (split ',' p)) (String.split_on_char '/' body)

let run_skip maxh progs sched =
  let mh = nat_of_int maxh in
  let s = ref (init mh progs) in
  let evs = Buffer.create 4096 in
  let status = ref "OK" in
  (try
    List.iteri (fun i t ->
      match step mh (nat_of_int t) !s with
      | None -> status := Printf.sprintf "STUCK@%d" i; raise Exit
      | Some (s', e) ->
          if Buffer.length evs > 0 then Buffer.add_char evs ' ';
          Buffer.add_string evs (string_of_int t); Buffer.add_char evs ':';
          (match e with
           | EBegin _ -> Buffer.add_string evs "b"
           | EAlloc (n, h) -> Buffer.add_string evs (Printf.sprintf "a%d:%d" (int_of_nat n) (int_of_nat h))
           | EGet (n, l, v) -> Buffer.add_string evs (Printf.sprintf "g%d.%d=%s" (int_of_nat n) (int_of_nat l) (ptr_s v))
           | ESet (n, l, v) -> Buffer.add_string evs (Printf.sprintf "s%d.%d=%s" (int_of_nat n) (int_of_nat l) (ptr_s v))
           | ECas (n, l, _, _, _) ->
               (* the value of the cell before and after, read from the model's memory *)
               Buffer.add_string evs (Printf.sprintf "c%d.%d:%s>%s" (int_of_nat n) (int_of_nat l)
                 (ptr_s (next_of !s.smem n l)) (ptr_s (next_of s'.smem n l)))
           | EPanic -> Buffer.add_string evs "!");
          s := s') sched
  with Exit -> ());
  let outs = String.concat " / " (List.map (fun th -> String.concat "," (List.map res_s th.outs)) !s.sthreads) in
  (* final: follow level 0 from the head *)
  let rec chain p fuel acc =
    if fuel = 0 then List.rev ("LOOP" :: acc) else
    match p with
    | None -> List.rev acc
    | Some n -> chain (next_of !s.smem n O) (fuel - 1) (string_of_n (List.nth !s.smem (int_of_nat n)).nkey :: acc) in
  let fin = String.concat "," (chain (next_of !s.smem O O) (List.length !s.smem + 1) []) in
  let k0 = List.sort compare (List.map string_of_n (keys0 !s.smem)) in
  let fin_sorted = List.sort compare (split ',' fin) in
  let status = if !status = "OK" && k0 <> fin_sorted then "KEYS0-MISMATCH" else !status in
  Printf.printf "%s | %s | %s | %s\n" (Buffer.contents evs) outs fin status

let run_list progs sched =
  let s = ref (linit progs) in
  let evs = Buffer.create 4096 in
  let status = ref "OK" in
  (try
    List.iteri (fun i t ->
      match lstep (nat_of_int t) !s with
      | None -> status := Printf.sprintf "STUCK@%d" i; raise Exit
      | Some (s', e) ->
          if Buffer.length evs > 0 then Buffer.add_char evs ' ';
          Buffer.add_string evs (string_of_int t); Buffer.add_char evs ':';
          (match e with
           | LEBegin _ -> Buffer.add_string evs "b"
           | LEAlloc n -> Buffer.add_string evs (Printf.sprintf "a%d" (int_of_nat n))
           | LEHeadGet v -> Buffer.add_string evs (Printf.sprintf "h=%s" (ptr_s v))
           | LESet (n, v) -> Buffer.add_string evs (Printf.sprintf "s%d=%s" (int_of_nat n) (ptr_s v))
           | LEHeadCas (_, _, _) -> Buffer.add_string evs (Printf.sprintf "C%s>%s" (ptr_s !s.lhead) (ptr_s s'.lhead))
           | LEGet (n, v) -> Buffer.add_string evs (Printf.sprintf "g%d=%s" (int_of_nat n) (ptr_s v))
           | LEPanic -> Buffer.add_string evs "!");
          s := s') sched
  with Exit -> ());
  let outs = String.concat " / " (List.map (fun th -> String.concat "," (List.map lres_s th.louts)) !s.lthreads) in
  let fin = String.concat "," (List.map string_of_n (lcontent !s)) in
  Printf.printf "%s | %s | %s | %s\n" (Buffer.contents evs) outs fin !status

let () =
  try
    while true do
      let line = input_line stdin in
      (try
        match List.map String.trim (String.split_on_char '|' line) with
        | ["S"; maxh; progs; sched] ->
            run_skip (int_of_string maxh) (progs_of progs parse_op) (List.map int_of_string (split ' ' sched))
        | ["L"; _; progs; sched] ->
            run_list (progs_of progs parse_lop) (List.map int_of_string (split ' ' sched))
        | _ -> print_endline "BADLINE"
      with Failure m -> print_endline ("BADLINE " ^ m));
    done
  with End_of_file -> ()
