(* mx_sync42: runs the extracted Sync42 models on cases read from stdin (one per line).
     lru CAP ; op ; op ...   (i K ID SZ | n K ID SZ | l K | r K | p | s)   same format as the harness
     wl SLOTS ; op ; ...     (L V | K J wake | U K | N | S K V | G K | H K | C) -> one token per op
     wcq SLOTS LIMIT MOD [EXTRA [lenient]] ; in in .. ; in .. | tid:what:a:b:c ...
                             -> ACCEPT ... / REJECT n   (strict wake-up discipline unless lenient) *)
open Gen_sync42

let rec pos_of_int (i : int) : positive =
  if i = 1 then XH else if i land 1 = 0 then XO (pos_of_int (i lsr 1)) else XI (pos_of_int (i lsr 1))
let n_of_int (i : int) : n = if i = 0 then N0 else Npos (pos_of_int i)
let rec int_of_pos = function XH -> 1 | XO p -> 2 * int_of_pos p | XI p -> 2 * int_of_pos p + 1
let int_of_n = function N0 -> 0 | Npos p -> int_of_pos p
let rec nat_of_int i = if i = 0 then O else S (nat_of_int (i - 1))
let rec int_of_nat = function O -> 0 | S n -> 1 + int_of_nat n

let words s = String.split_on_char ' ' (String.trim s) |> List.filter (fun x -> x <> "")
let ni s = n_of_int (int_of_string s)

(* ---------------------------------------------------------------- lru *)
let lru_op (s : string) =
  match words s with
  | ["i"; k; id; sz] -> Some (OInsert (ni k, (ni id, ni sz)))
  | ["n"; k; id; sz] -> Some (OInsertNoEvict (ni k, (ni id, ni sz)))
  | ["l"; k] -> Some (OLookup (ni k))
  | ["r"; k] -> Some (ORemove (ni k))
  | ["p"] -> Some OPop
  | ["s"] -> Some OSize
  | [] -> None
  | _ -> failwith ("bad lru op: " ^ s)

let show_val (id, sz) = Printf.sprintf "%d:%d" (int_of_n id) (int_of_n sz)
let show_kv (k, v) = Printf.sprintf "%d=%s" (int_of_n k) (show_val v)
let show_out = function
  | OutUnit -> None
  | OutValue None -> Some "-"
  | OutValue (Some v) -> Some (show_val v)
  | OutPopped None -> Some "-"
  | OutPopped (Some kv) -> Some (show_kv kv)
  | OutSize n -> Some (string_of_int (int_of_n n))

let filter_some l = List.filter_map (fun x -> x) l

let lru_case (rest : string) : string =
  match String.split_on_char ';' rest with
  | [] -> failwith "lru: no capacity"
  | cap :: ops ->
    let cap = ni (String.trim cap) in
    let ops = filter_some (List.map lru_op ops) in
    (match lru_case_N cap ops with
     | Ok ((outs, size), drained) ->
       String.concat " " (filter_some (List.map show_out outs)
                          @ [Printf.sprintf "| %d" (int_of_n size)]
                          @ List.map show_kv drained)
     | Panic -> "PANIC"
     | UB -> "UB"
     | OutOfFuel -> "OUTOFFUEL")

(* ---------------------------------------------------------------- wait list *)
let ti s = nat_of_int (int_of_string s)
let wl_op (s : string) =
  match words s with
  | ["L"; v] -> Some (WLink (ti v))
  | ["K"; j] -> Some (WWake (ti j))
  | ["U"; k] -> Some (WUnlink (ti k))
  | ["N"] -> Some WNotifyHead
  | ["S"; k; v] -> Some (WStore (ti k, ti v))
  | ["G"; k] -> Some (WLoad (ti k))
  | ["H"; k] -> Some (WIsHead (ti k))
  | ["C"] -> Some WCount
  | [] -> None
  | _ -> failwith ("bad wl op: " ^ s)

let show_wout = function
  | WoNone -> "-"
  | WoLinked i -> Printf.sprintf "L%d" (int_of_nat i)
  | WoBlocked -> "B"
  | WoUnlinked (i, b) -> Printf.sprintf "U%d:%d" (int_of_nat i) (if b then 1 else 0)
  | WoNotified None -> "N-"
  | WoNotified (Some i) -> Printf.sprintf "N%d" (int_of_nat i)
  | WoValue v -> Printf.sprintf "V%d" (int_of_nat v)
  | WoBool b -> if b then "T" else "F"
  | WoNat n -> Printf.sprintf "#%d" (int_of_nat n)

let wl_case (rest : string) : string =
  match String.split_on_char ';' rest with
  | [] -> failwith "wl: no slots"
  | n :: ops ->
    let ops = filter_some (List.map wl_op ops) in
    (match wl_case_nat (ti (String.trim n)) ops with
     | Ok (c, outs) ->
       String.concat " " (List.map show_wout outs
         @ [Printf.sprintf "| h%d t%d w%d" (int_of_nat c.c_wl.w_head) (int_of_nat c.c_wl.w_tail)
              (int_of_nat c.c_wl.w_waiting)])
     | Panic -> "PANIC"
     | UB -> "UB"
     | OutOfFuel -> "OUTOFFUEL")

(* ---------------------------------------------------------------- coalescing queue traces *)
let evk_of = function
  | "link" -> Some EvLink | "link_wait" -> Some EvLinkWait | "link_wake" -> Some EvLinkWake
  | "enter" -> Some EvEnter | "is_head" -> Some EvIsHead | "load" -> Some EvLoad
  | "wait" -> Some EvWait | "woke" -> Some EvWoke | "saw_output" -> Some EvSawOutput
  | "unlink" -> Some EvUnlink | "notify_available" -> Some EvNotifyAvailable
  | "notify_head" -> Some EvNotifyHead | "leader" -> Some EvLeader
  | "notify_available_pre" -> Some EvNotifyAvailablePre | "notify_head_pre" -> Some EvNotifyHeadPre
  | "core_locked" -> Some EvCoreLocked | "iter_next" -> Some EvIterNext | "store" -> Some EvStore
  | "stole" -> Some EvStole | "break" -> Some EvBreak | "batched" -> Some EvBatched
  | "work" -> Some EvWork | "gave" -> Some EvGave | "clear" -> Some EvClear
  | _ -> None

let parse_event (s : string) : event =
  match String.split_on_char ':' s with
  | [tid; what; a; b; c] ->
    (match evk_of what with
     | Some k -> { e_tid = ti tid; e_kind = k; e_a = ti a; e_b = ti b; e_c = ti c }
     | None -> failwith ("bad event kind " ^ what))
  | _ -> failwith ("bad event " ^ s)

let show_hout ((a, b), c) = Printf.sprintf "%d.%d.%d" (int_of_n a) (int_of_n b) (int_of_n c)

let wcq_case (rest : string) : string =
  match String.split_on_char '|' rest with
  | [cfg; evs] ->
    (match String.split_on_char ';' cfg with
     | hd :: progs ->
       (match words hd with
        | slots :: limit :: modulus :: more ->
          let extra = (match more with x :: _ -> ti x | [] -> O) in
          let strict = (match more with _ :: "lenient" :: _ -> false | _ -> true) in
          let progs = List.map (fun p -> List.map ni (words p)) progs in
          let tr = List.map parse_event (words evs) in
          (match accept strict (ti slots) (ti limit) (ni modulus) extra progs tr with
           | Inr n -> Printf.sprintf "REJECT %d" (int_of_nat n)
           | Inl (((fin, res), batches), links) ->
             let r = String.concat " " (List.mapi (fun t rs ->
                 Printf.sprintf "%d:%s" t (String.concat "," (List.map (fun (idx, o) ->
                     Printf.sprintf "%d>%s" (int_of_nat idx) (show_hout o)) rs))) res) in
             let rec take k l = if k = 0 then [] else (match l with [] -> [] | x :: r -> x :: take (k - 1) r) in
             let b = String.concat ";" (List.map (fun ((first, taken), outs) ->
                 String.concat "," (List.map (fun ((a, _), _) -> string_of_int (int_of_n a))
                                      (take (int_of_nat taken) outs))) batches) in
             let l = String.concat "," (List.map (fun (t, i) ->
                 Printf.sprintf "%d:%d" (int_of_nat t) (int_of_n i)) links) in
             Printf.sprintf "ACCEPT %s R %s | B %s | L %s" (if fin then "finished" else "unfinished") r b l)
        | _ -> failwith "wcq: bad header")
     | [] -> failwith "wcq: empty")
  | _ -> failwith "wcq: expected cfg | events"

(* ---------------------------------------------------------------- explicit-state exploration
   mc SLOTS LIMIT MOD MAXSTATES ; in in .. ; in ..
   every schedule (thread steps with every notify_one choice, spurious wake-ups) of the extracted
   small-step model from the initial state: no step panics; a state with unfinished threads has an
   enabled thread (not counting spurious wake-ups); in a finished state every call returned the
   output made for its input and the batches are the inputs in link order, each once. *)
let mc_case (rest : string) : string =
  match String.split_on_char ';' rest with
  | hd :: progs ->
    (match words hd with
     | slots :: limit :: modulus :: maxs :: more ->
       let extra = (match more with x :: _ -> ti x | [] -> O) in
       let progs_i = List.map (fun p -> List.map int_of_string (words p)) progs in
       let progs = List.map (fun p -> List.map n_of_int p) progs_i in
       let nthreads = List.length progs in
       let g0 = h_init (ti slots) (ti limit) (ni modulus) extra progs in
       let seen = Hashtbl.create 100000 in
       let key g = Marshal.to_string g [] in
       let q = Queue.create () in
       Hashtbl.add seen (key g0) (); Queue.add g0 q;
       let maxs = int_of_string maxs in
       let bad = ref None in
       let nstates = ref 0 and nfinal = ref 0 and ntrans = ref 0 in
       let push g = let k = key g in
         if not (Hashtbl.mem seen k) then (Hashtbl.add seen k (); Queue.add g q) in
       (try
         while not (Queue.is_empty q) do
           let g = Queue.pop q in
           incr nstates;
           if !nstates > maxs then raise Exit;
           let any = ref false in
           for t = 0 to nthreads - 1 do
             for c = 0 to nthreads - 1 do
               (match h_tstep g (nat_of_int t) (nat_of_int c) with
                | SOk g' -> any := true; incr ntrans; push g'
                | SPanic -> bad := Some (Printf.sprintf "PANIC at thread %d" t); raise Exit
                | SBlocked | SDone -> ())
             done;
             push (spurious g (nat_of_int t))
           done;
           if all_finished g then begin
             incr nfinal;
             (* results *)
             let rec take k l = if k = 0 then [] else (match l with [] -> [] | x :: r -> x :: take (k - 1) r) in
             let flat = List.concat (List.map (fun ((_, taken), outs) ->
                 List.map (fun ((a, _), _) -> int_of_n a) (take (int_of_nat taken) outs)) g.g_batches) in
             let links = List.map (fun (_, i) -> int_of_n i) g.g_links in
             if flat <> links then (bad := Some "batches differ from link order"; raise Exit);
             if List.sort compare flat <> List.sort compare (List.concat progs_i) then (bad := Some "inputs not exactly once"; raise Exit);
             List.iteri (fun t th ->
               let outs = List.rev_map (fun (_, ((a, _), _)) -> int_of_n a) th.t_done in
               if outs <> List.nth progs_i t then (bad := Some "a call returned another call's output"; raise Exit)) g.g_threads
           end else if not !any then (bad := Some "DEADLOCK"; raise Exit)
         done
       with Exit -> ());
       (match !bad with
        | Some b -> Printf.sprintf "BAD %s after %d states" b !nstates
        | None -> Printf.sprintf "%s states=%d transitions=%d final=%d"
                    (if !nstates > maxs then "TRUNCATED" else "OK") (min !nstates maxs) !ntrans !nfinal)
     | _ -> failwith "mc: bad header")
  | [] -> failwith "mc: empty"

let () =
  try
    while true do
      let line = String.trim (input_line stdin) in
      let mode, rest =
        match String.index_opt line ' ' with
        | Some i -> (String.sub line 0 i, String.sub line (i + 1) (String.length line - i - 1))
        | None -> (line, "") in
      print_endline (match mode with
        | "" -> ""
        | "lru" -> lru_case rest
        | "wl" -> wl_case rest
        | "wcq" -> wcq_case rest
        | "mc" -> mc_case rest
        | _ -> failwith ("bad mode " ^ mode))
    done
  with End_of_file -> ()
