(* mx_stall: the extracted Stall model (compaction selector + wake-up protocol) as a filter.
   One command per line:
     S OPTS | ONGOING | LEVELS      selector on a tree (same text the harness `c20 sel` reads)
        -> "<stall> <mand> <choice> | risk=<b> wf=<b> valid=<shape slice rest range closed ids|-> known=<b> safe=<b>"
           choice = none | lower upper first last size id,id,.. | PANIC | FUEL
     T                              the float tables -> "CURVE .." / "FACTOR .." (numerators over 2^52)
     trace commands (a session; state = options, version, ongoing):
     I OPTS | LEVELS                start a session on a tree          -> "I wf=<b>"
     E select none | E select lower upper first last size ids          -> "E ok" | "E MISMATCH model=<choice>"
     E ingest FILE                  (file = id:first:last:sts:bts:size) -> "E ok stall=<b>"  (stall must be 0)
     E park stall | E park compact                                      -> "E ok" | "E MISMATCH .."
     E apply lower upper first last size ids | FILES                    -> "E ok valid=<bits> wf=<b>" | "E MISMATCH .."
     E release lower upper first last size ids                          -> "E ok"
     Q                              -> "Q stall=<b> ongoing=<n> next=<choice> wf=<b>"
   keys hex ('-' = empty) *)
open Gen_stall

let rec pos_of_int (i : int) : positive =
  if i = 1 then XH else if i land 1 = 0 then XO (pos_of_int (i lsr 1)) else XI (pos_of_int (i lsr 1))
let n_of_int (i : int) : n = if i = 0 then N0 else Npos (pos_of_int i)
let rec int_of_pos = function XH -> 1 | XO p -> 2 * int_of_pos p | XI p -> 2 * int_of_pos p + 1
let int_of_n = function N0 -> 0 | Npos p -> int_of_pos p
let rec nat_of_int i = if i = 0 then O else S (nat_of_int (i - 1))
let rec int_of_nat = function O -> 0 | S n -> 1 + int_of_nat n
let n_of_dec (s : string) : n =
  let rec go acc i = if i = String.length s then acc
    else go (N.add (N.mul acc (n_of_int 10)) (n_of_int (Char.code s.[i] - 48))) (i + 1) in
  go N0 0
let dec_of_n (x : n) : string =
  let rec digits x acc =
    match x with
    | N0 -> acc
    | _ -> let (q, r) = N.div_eucl x (n_of_int 10) in digits q (string_of_int (int_of_n r) ^ acc) in
  match x with N0 -> "0" | _ -> digits x ""

let bytes_of_hex (s : string) : n list =
  if s = "-" then [] else
  List.init (String.length s / 2) (fun i -> n_of_int (int_of_string ("0x" ^ String.sub s (2 * i) 2)))
let hex_of_bytes (l : n list) : string =
  if l = [] then "-" else String.concat "" (List.map (fun c -> Printf.sprintf "%02x" (int_of_n c)) l)

let split c s = List.filter (fun x -> x <> "") (List.map String.trim (String.split_on_char c s))
let b x = if x then "1" else "0"

(* a file known by its metadata: one or two entries that have exactly this metadata *)
let parse_file (s : string) : file =
  match String.split_on_char ':' (String.trim s) with
  | [id; fk; lk; sts; bts; sz] ->
    let fk = bytes_of_hex fk and lk = bytes_of_hex lk in
    let sts = n_of_dec sts and bts = n_of_dec bts in
    let ents =
      if fk = lk && sts = bts then [ { ek = fk; ets = bts; ev = Some [] } ]
      else [ { ek = fk; ets = bts; ev = Some [] }; { ek = lk; ets = sts; ev = Some [] } ] in
    { fid = n_of_dec id; fents = ents; fsize = n_of_dec sz }
  | _ -> failwith ("bad file " ^ s)
let parse_level (s : string) : file list = List.map parse_file (split ';' s)
let parse_levels (s : string) : file list list =
  List.map parse_level (String.split_on_char '/' s)

let parse_opts (s : string) : options =
  match List.map n_of_dec (split ',' s) with
  | [a; b; c; d; e; f; g] ->
    { o_max_open_files = a; o_max_compaction_bytes = b; o_max_compaction_files = c;
      o_mandatory_files = d; o_mandatory_bytes = e; o_stall_files = f; o_stall_bytes = g }
  | _ -> failwith "bad options"

let parse_ids (s : string) : n list = if s = "-" then [] else List.map n_of_dec (split ',' s)

(* lower:upper:first:last:size:ids *)
let parse_ongoing1 (s : string) : compaction =
  match String.split_on_char ':' (String.trim s) with
  | [lo; up; fk; lk; _sz; ids] ->
    { clower = nat_of_int (int_of_string lo); cupper = nat_of_int (int_of_string up);
      cfirst = bytes_of_hex fk; clast = bytes_of_hex lk; cinputs = parse_ids ids }
  | _ -> failwith ("bad ongoing " ^ s)
let parse_ongoing (s : string) : compaction list =
  let s = String.trim s in if s = "-" || s = "" then [] else List.map parse_ongoing1 (split ';' s)

let show_core (c : core) : string =
  Printf.sprintf "%d %d %s %s %s %s" (int_of_nat c.cc.clower) (int_of_nat c.cc.cupper)
    (hex_of_bytes c.cc.cfirst) (hex_of_bytes c.cc.clast) (dec_of_n c.csize)
    (String.concat "," (List.map dec_of_n c.cc.cinputs))

let show_choice (r : nc_out res) : string * bool =
  match r with
  | Panic -> ("PANIC", false)
  | OutOfFuel -> ("FUEL", false)
  | Ok o -> ((match o.nc_choice with None -> "none" | Some c -> show_core c), o.nc_risk)

let valid_bits v (c : compaction) : string =
  b (vc_shape v c) ^ b (vc_slice v c) ^ b (vc_rest v c) ^ b (vc_range v c) ^ b (vc_closed v c) ^ b (vc_ids v c)

let sel (rest : string) : string =
  match String.split_on_char '|' rest with
  | [o; og; lv] ->
    let o = parse_opts o and og = parse_ongoing og and v = parse_levels lv in
    let r = next_compaction o v og in
    let (s, risk) = show_choice r in
    let valid = match r with Ok { nc_choice = Some c; _ } -> valid_bits v c.cc | _ -> "-" in
    Printf.sprintf "%s %s %s | risk=%s wf=%s valid=%s known=%s safe=%s" (b (should_stall_ingest o v)) (b (should_mandatory o v)) s
      (b risk) (b (sel_wfb v)) valid (b (known_stall o v)) (b (options_safe o v))
  | _ -> failwith "bad S line"

(* ---- trace sessions ---- *)
let st_o = ref (parse_opts "0,0,0,0,0,0,0")
let st_v : file list list ref = ref []
let st_og : compaction list ref = ref []

let parse_core_words (ws : string list) : compaction * n =
  match ws with
  | [lo; up; fk; lk; sz; ids] ->
    ({ clower = nat_of_int (int_of_string lo); cupper = nat_of_int (int_of_string up);
       cfirst = bytes_of_hex fk; clast = bytes_of_hex lk; cinputs = parse_ids ids }, n_of_dec sz)
  | _ -> failwith "bad compaction"

let same_compaction (a : compaction) (c : compaction) : bool =
  a.clower = c.clower && a.cupper = c.cupper && a.cfirst = c.cfirst && a.clast = c.clast && a.cinputs = c.cinputs

let rec remove_first p = function
  | [] -> None
  | x :: r -> if p x then Some r else (match remove_first p r with None -> None | Some r' -> Some (x :: r'))

let set_l0 v l0 = match v with [] -> [l0] | _ :: r -> l0 :: r

let event (rest : string) : string =
  let (head, tail) = match String.index_opt rest '|' with
    | None -> (rest, "")
    | Some i -> (String.sub rest 0 i, String.sub rest (i + 1) (String.length rest - i - 1)) in
  match split ' ' head with
  | "select" :: ws ->
    let r = next_compaction !st_o !st_v !st_og in
    let (s, risk) = show_choice r in
    let want = String.concat " " ws in
    if s = want then begin
      (match r with Ok { nc_choice = Some c; _ } -> st_og := !st_og @ [c.cc] | _ -> ());
      "E ok"
    end else Printf.sprintf "E MISMATCH model=%s risk=%s" s (b risk)
  | ["ingest"; f] ->
    let stall = should_stall_ingest !st_o !st_v in
    let f = parse_file f in
    st_v := set_l0 !st_v ((match !st_v with [] -> [] | l0 :: _ -> l0) @ [f]);
    Printf.sprintf "E ok stall=%s" (b stall)
  | ["park"; "stall"] ->
    if should_stall_ingest !st_o !st_v then "E ok" else "E MISMATCH parked on stall while should_stall_ingest is false"
  | ["park"; "compact"] ->
    (match next_compaction !st_o !st_v !st_og with
     | Ok { nc_choice = None; _ } -> "E ok"
     | r -> Printf.sprintf "E MISMATCH parked on compact while next_compaction = %s" (fst (show_choice r)))
  | "apply" :: ws ->
    let (c, _) = parse_core_words ws in
    let outs = List.map parse_file (split ' ' tail) in
    (match remove_first (same_compaction c) !st_og with
     | None -> "E MISMATCH applied a compaction that is not ongoing"
     | Some og' ->
       let bits = valid_bits !st_v c in
       st_og := og';
       st_v := apply_compaction !st_v c outs;
       Printf.sprintf "E ok valid=%s wf=%s" bits (b (sel_wfb !st_v)))
  | "release" :: ws ->
    let (c, _) = parse_core_words ws in
    (match remove_first (same_compaction c) !st_og with
     | None -> "E ok notongoing"   (* the Rust ignores release_compaction's error: the compaction was applied before its thread failed *)
     | Some og' -> st_og := og'; "E ok")
  | _ -> "E BAD " ^ rest

let show_version v =
  String.concat "/" (List.map (fun lv -> String.concat "," (List.map (fun f -> dec_of_n f.fid) lv)) v)

let () =
  try
    while true do
      let line = String.trim (input_line stdin) in
      if line <> "" then begin
        let cmd = line.[0] in
        let rest = String.trim (String.sub line 1 (String.length line - 1)) in
        let out =
          try
            match cmd with
            | 'S' -> sel rest
            | 'T' ->
              "CURVE " ^ String.concat " " (List.map dec_of_n level_curve_tbl) ^ "\nFACTOR "
              ^ String.concat " " (List.map dec_of_n level_factor_tbl)
            | 'I' ->
              (match String.split_on_char '|' rest with
               | [o; lv] ->
                 st_o := parse_opts o; st_v := parse_levels lv; st_og := [];
                 Printf.sprintf "I wf=%s" (b (sel_wfb !st_v))
               | _ -> failwith "bad I line")
            | 'E' -> event rest
            | 'Q' ->
              let (s, _) = show_choice (next_compaction !st_o !st_v !st_og) in
              Printf.sprintf "Q stall=%s ongoing=%d next=%s wf=%s known=%s tree=%s" (b (should_stall_ingest !st_o !st_v))
                (List.length !st_og) s (b (sel_wfb !st_v)) (b (known_stall !st_o !st_v)) (show_version !st_v)
            | _ -> "BAD " ^ line
          with Failure m -> "ERR " ^ m | Not_found -> "ERR notfound" | Invalid_argument m -> "ERR " ^ m
        in
        print_endline out
      end
    done
  with End_of_file -> ()
