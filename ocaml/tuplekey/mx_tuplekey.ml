(* mx_tuplekey: runs the extracted tuple-key models (Coq: TupleKey/ModelV1.v, ModelV2.v, Spec.v)
   on cases read from stdin, one per line; same line format as harness/src/bin/c16.rs, the model
   prints some extra trailing fields (spec:.. known:..).

   2P A B EA EB   v2 tuples: hexA hexB hexAE hexBE cmpAB cmpAE_B cmpAE_BE cmpA_AE decA decAE spec:<c>
   2D TYPES HEX   -> ok:<tuple> | err:<Class> | PANIC
   1P A B EA EB   v1 tuples: same fields, decA/decAE via parse_next for units; + decA2 (parse_next_with_key)
                  + spec:<c> known:<0|1>
   1D VIA SHAPE HEX
   1I HEX         -> pieces(,) peek
   tuples: comma separated tokens, "-" = empty.
     v2 elem: n | b<hex> | s<hex> | u<bits>:<hex> | i<bits>:[-]<hex>     types: n b s u8.. i8..
     v1 field: <fhex>/<F|R>/<elem>, elem: n | s<hex> | u32:<hex> | u64:<hex> | i32:[-]<hex> | i64:[-]<hex>
     v1 shape: <fhex>/<F|R>/<n|s|u32|u64|i32|i64> *)
open Gen_tuplekey

(* ---- numbers *)
let ndbl (x : n) (b : bool) : n =
  match x, b with
  | N0, false -> N0
  | N0, true -> Npos XH
  | Npos p, false -> Npos (XO p)
  | Npos p, true -> Npos (XI p)

let hexval c =
  match c with
  | '0' .. '9' -> Char.code c - 48
  | 'a' .. 'f' -> Char.code c - 87
  | 'A' .. 'F' -> Char.code c - 55
  | _ -> failwith "hex"

let n_of_hex (s : string) : n =
  let acc = ref N0 in
  String.iter (fun c ->
    let v = hexval c in
    for i = 3 downto 0 do acc := ndbl !acc ((v lsr i) land 1 = 1) done) s;
  !acc

let rec pos_bits = function XH -> [1] | XO p -> 0 :: pos_bits p | XI p -> 1 :: pos_bits p
let hex_of_n (x : n) : string =
  match x with
  | N0 -> "0"
  | Npos p ->
    let bits = Array.of_list (pos_bits p) in   (* LSB first *)
    let nb = Array.length bits in
    let nd = (nb + 3) / 4 in
    String.init nd (fun k ->
      let d = nd - 1 - k in
      let v = ref 0 in
      for i = 3 downto 0 do
        let idx = 4 * d + i in
        v := 2 * !v + (if idx < nb then bits.(idx) else 0)
      done;
      "0123456789abcdef".[!v])

let z_of_hex (s : string) : z =
  if String.length s > 0 && s.[0] = '-' then
    (match n_of_hex (String.sub s 1 (String.length s - 1)) with N0 -> Z0 | Npos p -> Zneg p)
  else (match n_of_hex s with N0 -> Z0 | Npos p -> Zpos p)
let hex_of_z = function
  | Z0 -> "0"
  | Zpos p -> hex_of_n (Npos p)
  | Zneg p -> "-" ^ hex_of_n (Npos p)

let rec int_of_pos = function XH -> 1 | XO p -> 2 * int_of_pos p | XI p -> 2 * int_of_pos p + 1
let int_of_n = function N0 -> 0 | Npos p -> int_of_pos p
let rec pos_of_int i = if i = 1 then XH else if i land 1 = 0 then XO (pos_of_int (i lsr 1)) else XI (pos_of_int (i lsr 1))
let n_of_int i = if i = 0 then N0 else Npos (pos_of_int i)

let bytes_of_hex (s : string) : n list =
  if s = "-" then [] else
  List.init (String.length s / 2) (fun i -> n_of_int (16 * hexval s.[2 * i] + hexval s.[2 * i + 1]))
let hex_of_bytes (l : n list) : string =
  if l = [] then "-" else
  String.concat "" (List.map (fun b -> Printf.sprintf "%02x" (int_of_n b)) l)
let hex_of_bytes0 (l : n list) : string =     (* inside tokens: empty = nothing *)
  String.concat "" (List.map (fun b -> Printf.sprintf "%02x" (int_of_n b)) l)

let split_on c s = if s = "-" || s = "" then [] else String.split_on_char c s
let after s k = String.sub s k (String.length s - k)

(* ---- v2 tokens *)
let ty2_of_tok (t : string) : ty2 =
  match t with
  | "n" -> T2Unit | "b" -> T2Bytes | "s" -> T2String
  | _ ->
    let bits = n_of_int (int_of_string (after t 1)) in
    if t.[0] = 'u' then T2U bits else if t.[0] = 'i' then T2I bits else failwith ("ty2 " ^ t)

let el2_of_tok (t : string) : el2 =
  match t.[0] with
  | 'n' -> V2Unit
  | 'b' -> V2Bytes (bytes_of_hex (let x = after t 1 in if x = "" then "-" else x))
  | 's' -> V2String (bytes_of_hex (let x = after t 1 in if x = "" then "-" else x))
  | 'u' | 'i' ->
    let k = String.index t ':' in
    let bits = n_of_int (int_of_string (String.sub t 1 (k - 1))) in
    let v = after t (k + 1) in
    if t.[0] = 'u' then V2U (bits, n_of_hex v) else V2I (bits, z_of_hex v)
  | _ -> failwith ("el2 " ^ t)

let tok_of_el2 (e : el2) : string =
  match e with
  | V2Unit -> "n"
  | V2Bytes b -> "b" ^ hex_of_bytes0 b
  | V2String s -> "s" ^ hex_of_bytes0 s
  | V2U (bits, v) -> Printf.sprintf "u%d:%s" (int_of_n bits) (hex_of_n v)
  | V2I (bits, v) -> Printf.sprintf "i%d:%s" (int_of_n bits) (hex_of_z v)

let tuple_str toks = if toks = [] then "-" else String.concat "," toks

let cmp_str = function Eq -> "eq" | Lt -> "lt" | Gt -> "gt"

let err2_str = function
  | UnexpectedEnd -> "UnexpectedEnd" | InvalidIntegerTag -> "InvalidIntegerTag"
  | InvalidUnitTag -> "InvalidUnitTag" | NonCanonicalInteger -> "NonCanonicalInteger"
  | ValueOutOfRange -> "ValueOutOfRange" | InvalidBytesEscape -> "InvalidBytesEscape"
  | UnterminatedBytes -> "UnterminatedBytes" | InvalidUtf8 -> "InvalidUtf8"
  | TrailingBytes -> "TrailingBytes"

let dec2_str tys bs =
  match decode2 tys bs with
  | Ok es -> "ok:" ^ tuple_str (List.map tok_of_el2 es)
  | Err e -> "err:" ^ err2_str e
  | Panic -> "PANIC"

let rec ty_of_el2 = function
  | V2Unit -> T2Unit | V2Bytes _ -> T2Bytes | V2String _ -> T2String
  | V2U (b, _) -> T2U b | V2I (b, _) -> T2I b

(* ---- v1 tokens *)
let dir_of = function "F" -> Forward | "R" -> Reverse | s -> failwith ("dir " ^ s)
let dir_str = function Forward -> "F" | Reverse -> "R"
let kty_of = function
  | "n" -> KUnit | "u32" -> KFixed32 | "u64" -> KFixed64 | "i32" -> KSfixed32 | "i64" -> KSfixed64
  | "s" -> KString | s -> failwith ("kty " ^ s)
let kty_str = function
  | KUnit -> "n" | KFixed32 -> "u32" | KFixed64 -> "u64" | KSfixed32 -> "i32" | KSfixed64 -> "i64"
  | KString -> "s"

let el1_of_tok (t : string) : el1 =
  if t = "n" then V1Unit
  else if t.[0] = 's' then V1String (bytes_of_hex (let x = after t 1 in if x = "" then "-" else x))
  else
    let k = String.index t ':' in
    let ty = String.sub t 0 k and v = after t (k + 1) in
    match ty with
    | "u32" -> V1U32 (n_of_hex v) | "u64" -> V1U64 (n_of_hex v)
    | "i32" -> V1I32 (z_of_hex v) | "i64" -> V1I64 (z_of_hex v)
    | _ -> failwith ("el1 " ^ t)

let tok_of_el1 = function
  | V1Unit -> "n"
  | V1U32 v -> "u32:" ^ hex_of_n v | V1U64 v -> "u64:" ^ hex_of_n v
  | V1I32 v -> "i32:" ^ hex_of_z v | V1I64 v -> "i64:" ^ hex_of_z v
  | V1String s -> "s" ^ hex_of_bytes0 s

let field_of_tok (t : string) : field1 =
  match String.split_on_char '/' t with
  | [f; d; e] -> { f_num = n_of_hex f; f_dir = dir_of d; f_val = el1_of_tok e }
  | _ -> failwith ("field " ^ t)
let shape_of_tok (t : string) : shape1 =
  match String.split_on_char '/' t with
  | [f; d; k] -> { s_num = n_of_hex f; s_dir = dir_of d; s_ty = kty_of k }
  | _ -> failwith ("shape " ^ t)
let kty_of_el1 = function
  | V1Unit -> KUnit | V1U32 _ -> KFixed32 | V1U64 _ -> KFixed64 | V1I32 _ -> KSfixed32
  | V1I64 _ -> KSfixed64 | V1String _ -> KString
let shape_of_field (f : field1) : shape1 = { s_num = f.f_num; s_dir = f.f_dir; s_ty = kty_of_el1 f.f_val }

let err1_str = function
  | NoMoreElements -> "NoMoreElements" | TagMismatch -> "TagMismatch" | MissingValue -> "MissingValue"
  | UnitStructLength -> "UnitStructLength" | UnitLength -> "UnitLength" | BufNot5 -> "BufNot5"
  | BufNot10 -> "BufNot10" | InvalidUtf8_1 -> "InvalidUtf8"

let dec1_str via sh bs =
  match decode1 via sh bs with
  | Ok1 es -> "ok:" ^ tuple_str (List.map tok_of_el1 es)
  | Err1 e -> "err:" ^ err1_str e
  | Panic1 -> "PANIC"

let enc1_str t = match encode1 t with Some b -> (hex_of_bytes b, b) | None -> ("PANIC", [])

let process (line : string) : string =
  match String.split_on_char ' ' (String.trim line) |> List.filter (fun x -> x <> "") with
  | ["2P"; a; b; ea; eb] ->
    let p s = List.map el2_of_tok (split_on ',' s) in
    let a = p a and b = p b and ea = p ea and eb = p eb in
    let ka = encode2 a and kb = encode2 b and kae = encode2 (a @ ea) and kbe = encode2 (b @ eb) in
    String.concat " " [
      hex_of_bytes ka; hex_of_bytes kb; hex_of_bytes kae; hex_of_bytes kbe;
      cmp_str (lex_cmp ka kb); cmp_str (lex_cmp kae kb); cmp_str (lex_cmp kae kbe); cmp_str (lex_cmp ka kae);
      dec2_str (List.map ty_of_el2 a) ka; dec2_str (List.map ty_of_el2 (a @ ea)) kae;
      "spec:" ^ cmp_str (tuple_cmp2 a b) ]
  | ["2D"; tys; hex] ->
    dec2_str (List.map ty2_of_tok (split_on ',' tys)) (bytes_of_hex hex)
  | ["1P"; a; b; ea; eb] ->
    let p s = List.map field_of_tok (split_on ',' s) in
    let a = p a and b = p b and ea = p ea and eb = p eb in
    let (ha, ka) = enc1_str a and (hb, kb) = enc1_str b and (hae, kae) = enc1_str (a @ ea)
    and (hbe, kbe) = enc1_str (b @ eb) in
    String.concat " " [
      ha; hb; hae; hbe;
      cmp_str (lex_cmp ka kb); cmp_str (lex_cmp kae kb); cmp_str (lex_cmp kae kbe); cmp_str (lex_cmp ka kae);
      dec1_str true (List.map shape_of_field a) ka; dec1_str true (List.map shape_of_field (a @ ea)) kae;
      dec1_str false (List.map shape_of_field a) ka;
      "spec:" ^ cmp_str (tuple_cmp1 a b); "known:" ^ (if known_F12 a b then "1" else "0") ]
  | ["1D"; via; sh; hex] ->
    dec1_str (via = "1") (List.map shape_of_tok (split_on ',' sh)) (bytes_of_hex hex)
  | ["1I"; hex] ->
    let rec pieces rest acc =
      match tki_next rest with
      | None -> List.rev acc
      | Some (p, r) -> pieces r (hex_of_bytes p :: acc) in
    let bs = bytes_of_hex hex in
    let pk = match peek_next bs with
      | Some None -> "none"
      | None -> "err"
      | Some (Some ((f, k), d)) -> Printf.sprintf "%s/%s/%s" (hex_of_n f) (dir_str d) (kty_str k) in
    tuple_str (pieces bs []) ^ " " ^ pk
  | _ -> failwith ("bad case: " ^ line)

let () =
  try
    while true do
      let line = input_line stdin in
      if String.trim line = "" then print_endline ""
      else print_endline (process line)
    done
  with End_of_file -> ()
