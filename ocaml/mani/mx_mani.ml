(* mx_mani: runs the extracted manifest model (Mani/ModelMani.v run_case) on cases read from stdin,
   one case per line, one output line per case.

   case   ::= "ratio=" INT ";" op (";" op)*
   op     ::= open | rollover | close | verify | dump | cut INT | apply RAW* | trace op | point K (M|T) N op
            | iter HEX | readfile HEX
   RAW    ::= a:HEX | r:HEX | i:CODEPOINT:HEX          (HEX may be empty)
   output ::= per op the items joined by " | ", ops joined by " ;; "  (see `show_out`)

   The checksum is external to the model: crc32c is implemented here (table driven, Castagnoli
   polynomial, reflected) and handed to the model as its `crc` argument. *)
open Gen_mani

let rec pos_of_int (i : int) : positive =
  if i = 1 then XH else if i land 1 = 0 then XO (pos_of_int (i lsr 1)) else XI (pos_of_int (i lsr 1))
let n_of_int (i : int) : n = if i = 0 then N0 else Npos (pos_of_int i)
(* decimal strings beyond OCaml's 63-bit ints (ratios up to 2^64-1) *)
let n_of_decimal (s : string) : n =
  let acc = ref N0 in
  String.iter (fun c -> acc := N.add (N.mul !acc (n_of_int 10)) (n_of_int (Char.code c - 48))) s;
  !acc
let rec int_of_pos = function XH -> 1 | XO p -> 2 * int_of_pos p | XI p -> 2 * int_of_pos p + 1
let int_of_n = function N0 -> 0 | Npos p -> int_of_pos p
let rec nat_of_int i = if i <= 0 then O else S (nat_of_int (i - 1))
let rec int_of_nat = function O -> 0 | S n -> 1 + int_of_nat n

(* ---- crc32c *)
let crc_table =
  Array.init 256 (fun i ->
    let c = ref i in
    for _ = 0 to 7 do
      if !c land 1 = 1 then c := (!c lsr 1) lxor 0x82F63B78 else c := !c lsr 1
    done;
    !c)
let crc32c_ints (l : int list) : int =
  let c = ref 0xFFFFFFFF in
  List.iter (fun b -> c := crc_table.((!c lxor b) land 0xFF) lxor (!c lsr 8)) l;
  !c lxor 0xFFFFFFFF
let crc (l : n list) : n = n_of_int (crc32c_ints (List.map int_of_n l))

(* ---- hex *)
let bytes_of_hex (s : string) : n list =
  let l = String.length s / 2 in
  List.init l (fun i -> n_of_int (int_of_string ("0x" ^ String.sub s (2 * i) 2)))
let hex_of_ns (l : n list) : string =
  String.concat "" (List.map (fun c -> Printf.sprintf "%02x" (int_of_n c)) l)

(* ---- parsing *)
let parse_raw (s : string) : rawop =
  match String.split_on_char ':' s with
  | ["a"; h] -> RAdd (bytes_of_hex h)
  | ["r"; h] -> RRm (bytes_of_hex h)
  | ["i"; c; h] -> RInfo (n_of_int (int_of_string c), bytes_of_hex h)
  | _ -> failwith ("bad raw op: " ^ s)

let rec parse_op (toks : string list) : op =
  match toks with
  | ["open"] -> OpOpen
  | ["rollover"] -> OpRollover
  | ["close"] -> OpClose
  | ["verify"] -> OpVerify
  | ["dump"] -> OpDump
  | ["cut"; n] -> OpCut (nat_of_int (int_of_string n))
  | "apply" :: raws -> OpApply (List.map parse_raw raws)
  | "trace" :: rest -> OpTrace (parse_op rest)
  | "point" :: k :: w :: n :: rest -> OpPoint (parse_op rest, nat_of_int (int_of_string k), (w = "T"), nat_of_int (int_of_string n))
  | ["iter"; h] -> OpIter (bytes_of_hex h)
  | ["iter"] -> OpIter []
  | ["readfile"; h] -> OpReadFile (bytes_of_hex h)
  | ["readfile"] -> OpReadFile []
  | _ -> failwith ("bad op: " ^ String.concat " " toks)

let words s = String.split_on_char ' ' (String.trim s) |> List.filter (fun x -> x <> "")

(* ---- printing *)
let show_err = function
  | ECorruption -> "corruption" | ENewline -> "newline-disallowed" | EDisallowed -> "string-disallowed"
  | EIo -> "io-error" | ESystem -> "system-error"
let show_fname = function FMani -> "M" | FTmp -> "T" | FBackup n -> "B" ^ string_of_int (int_of_n n)
let show_call = function
  | COpenAppend f -> "open(" ^ show_fname f ^ ")"
  | CWrite (f, bs) -> "write(" ^ show_fname f ^ "," ^ hex_of_ns bs ^ ")"
  | CFdatasync f -> "sync(" ^ show_fname f ^ ")"
  | CLink (a, b) -> "link(" ^ show_fname a ^ "," ^ show_fname b ^ ")"
  | CUnlink f -> "unlink(" ^ show_fname f ^ ")"
  | CRename (a, b) -> "rename(" ^ show_fname a ^ "," ^ show_fname b ^ ")"
let show_state (st : state) =
  "{" ^ String.concat "," (List.map hex_of_ns st.s_strs) ^ "/"
  ^ String.concat "," (List.map (fun (k, v) -> string_of_int (int_of_n k) ^ ":" ^ hex_of_ns v) st.s_info) ^ "}"
let show_edit (e : edit) =
  "{" ^ String.concat "," (List.map hex_of_ns e.e_add) ^ "/" ^ String.concat "," (List.map hex_of_ns e.e_rm) ^ "/"
  ^ String.concat "," (List.map (fun (k, v) -> string_of_int (int_of_n k) ^ ":" ^ hex_of_ns v) e.e_info) ^ "}"
let show_openres = function
  | RState st -> "S" ^ show_state st | RErr e -> "E" ^ show_err e | RPanic -> "PANIC"
let show_res = function None -> "ok" | Some e -> "err:" ^ show_err e
let show_verify = function
  | Ok l -> "vf[" ^ String.concat "," (List.map show_err l) ^ "]"
  | Err e -> "vfERR:" ^ show_err e
  | Panic -> "vfPANIC"
let show_out = function
  | OutRes r -> show_res r
  | OutPanic -> "PANIC"
  | OutBad -> "BAD"
  | OutChecks rs -> "chk[" ^ String.concat "," (List.map show_res rs) ^ "]"
  | OutTrace cs -> "tr[" ^ String.concat "," (List.map show_call cs) ^ "]"
  | OutState None -> "st-"
  | OutState (Some st) -> "st" ^ show_state st
  | OutFs files ->
      "fs[" ^ String.concat "," (List.map (fun (((f, i), d), dur) ->
        Printf.sprintf "%s@%d=%s/%d" (show_fname f) (int_of_nat i) (hex_of_ns d) (int_of_nat dur)) files) ^ "]"
  | OutVerify v -> show_verify v
  | OutPoint ((r, v), (r2, v2)) ->
      Printf.sprintf "pt:%s~%s~%s~%s" (show_openres r) (show_verify v) (show_openres r2) (show_verify v2)
  | OutItems l -> "it[" ^ String.concat "," (List.map (function IEdit e -> "E" ^ show_edit e | IErr x -> "X" ^ show_err x) l) ^ "]"
  | OutOpen r -> "op:" ^ show_openres r

let () =
  try
    while true do
      let line = input_line stdin in
      if String.trim line = "" then print_endline ""
      else begin
        let parts = String.split_on_char ';' line |> List.map String.trim |> List.filter (fun x -> x <> "") in
        if String.length line > 6 && String.sub line 0 6 = "@lock " then begin
          (* the lock-file protocol (Mani/Lock.v lock_run): events <pid>l / <pid>u *)
          let evs = words (String.sub line 6 (String.length line - 6)) in
          let calls = List.map (fun ev ->
            let p = nat_of_int (int_of_string (String.sub ev 0 (String.length ev - 1))) in
            if ev.[String.length ev - 1] = 'l' then CLock p else CUnlock p) evs in
          print_endline (String.concat " " (List.map (function
            | LGot -> "got" | LNone -> "none" | LOk -> "ok" | LNoHandle -> "nohandle") (lock_run calls)))
        end else
        match parts with
        | hd :: ops when String.length hd > 6 && String.sub hd 0 6 = "ratio=" ->
            let ratio = n_of_decimal (String.sub hd 6 (String.length hd - 6)) in
            let ops = List.map (fun s -> parse_op (words s)) ops in
            let outs = run_case crc ratio ops in
            print_endline (String.concat " ;; " (List.map (fun l -> String.concat " | " (List.map show_out l)) outs))
        | _ -> failwith ("bad case: " ^ line)
      end
    done
  with End_of_file -> ()
