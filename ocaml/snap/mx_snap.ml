(* mx_snap: the extracted Snap model (Snap/Model.v: mstep) as a co-process of checks/c07.py.
   One command per line on stdin, one answer line per command:
     H seq io hv ca            new machine; flags = cf_iter_owns cf_holds_ver cf_cache (0/1)
     W k=v,k=~,...             a write batch (hex, `-` = empty)
     R                         rollover            F fid      flush done (answers the file's entries)
     I lvl/lvl/..              install: a level is files separated by `;`, a file is
                               fid:ent,ent,..  with ent = khex.ts.vhex|~
     U *|f,f,..                unlink from trash   E *|f,f,.. evict from the sst cache
     O cid lo hi               open a scan         S cid prog  cursor calls F L N P S<hex>
     X cid                     close
     L                         files: sst=.. trash=..
     Q lo hi                   the specification list at the current state
     M                         memtables: id:store:iters:freed:len
     A                         events so far accepted / rejected by Model.acc_ev
   Cursor observations print as the harness prints them: key@ts=value | key@ts=~ | .  and the
   model's own failures PANIC / ERR / FUEL; a machine error prints UAF / ENOENT / BAD. *)
open Gen_snap

let rec pos_of_int (i : int) : positive =
  if i = 1 then XH else if i land 1 = 0 then XO (pos_of_int (i lsr 1)) else XI (pos_of_int (i lsr 1))
let n_of_int (i : int) : n = if i = 0 then N0 else Npos (pos_of_int i)
let rec int_of_pos = function XH -> 1 | XO p -> 2 * int_of_pos p | XI p -> 2 * int_of_pos p + 1
let int_of_n = function N0 -> 0 | Npos p -> int_of_pos p
let rec int_of_nat = function O -> 0 | S k -> 1 + int_of_nat k

let n_of_dec (s : string) : n =
  let digits = Array.init (String.length s) (fun i -> Char.code s.[i] - 48) in
  let is_zero () = Array.for_all (fun d -> d = 0) digits in
  let bits = Stdlib.ref [] in
  while not (is_zero ()) do
    let carry = Stdlib.ref 0 in
    for i = 0 to Array.length digits - 1 do
      let cur = !carry * 10 + digits.(i) in
      digits.(i) <- cur / 2;
      carry := cur mod 2
    done;
    bits := !carry :: !bits
  done;
  match !bits with
  | [] -> N0
  | _ :: rest -> Npos (List.fold_left (fun p b -> if b = 1 then XI p else XO p) XH rest)

let dec_of_n (x : n) : string =
  match x with
  | N0 -> "0"
  | Npos p ->
      let rec bits p acc = match p with XH -> 1 :: acc | XO q -> bits q (0 :: acc) | XI q -> bits q (1 :: acc) in
      let bs = bits p [] in
      let digs = Stdlib.ref [0] in
      List.iter (fun b ->
        let carry = Stdlib.ref b in
        digs := List.map (fun d -> let v = d * 2 + !carry in carry := v / 10; v mod 10) !digs;
        if !carry > 0 then digs := !digs @ [!carry]) bs;
      String.concat "" (List.rev_map string_of_int !digs)

let bytes_of_hex (s : string) : n list =
  if s = "-" then [] else
  let l = String.length s / 2 in
  List.init l (fun i -> n_of_int (int_of_string ("0x" ^ String.sub s (2 * i) 2)))
let hex_of_bytes (l : n list) : string =
  if l = [] then "-" else String.concat "" (List.map (fun b -> Printf.sprintf "%02x" (int_of_n b)) l)

let split c s = if s = "" then [] else String.split_on_char c s

(* khex.ts.vhex|~ *)
let parse_ent (t : string) : entry =
  match String.split_on_char '.' t with
  | [k; ts; v] -> { ek = bytes_of_hex k; ets = n_of_dec ts; ev = (if v = "~" then None else Some (bytes_of_hex v)) }
  | _ -> failwith ("bad entry " ^ t)
let show_ent (e : entry) : string =
  Printf.sprintf "%s.%s.%s" (hex_of_bytes e.ek) (dec_of_n e.ets) (match e.ev with None -> "~" | Some v -> hex_of_bytes v)

let parse_file (t : string) : file =
  let i = String.index t ':' in
  { f_id = n_of_dec (String.sub t 0 i);
    f_ents = List.map parse_ent (split ',' (String.sub t (i + 1) (String.length t - i - 1))) }
let parse_levels (t : string) : file list list =
  List.map (fun lv -> List.map parse_file (split ';' lv)) (String.split_on_char '/' t)

let parse_bound (t : string) : bound =
  if t = "U" then Unbounded
  else
    let h = bytes_of_hex (String.sub t 1 (String.length t - 1)) in
    if t.[0] = 'I' then Included h else Excluded h

let parse_op (t : string) : op =
  match t.[0] with
  | 'F' -> OFirst | 'L' -> OLast | 'N' -> ONext | 'P' -> OPrev
  | 'S' -> OSeek (bytes_of_hex (String.sub t 1 (String.length t - 1)))
  | _ -> failwith ("bad op " ^ t)

let show_obs (o : obs) : string =
  match o with
  | (_, Some Panic) -> "PANIC"
  | (_, Some LogicError) -> "ERR"
  | (_, Some OutOfFuel) -> "FUEL"
  | (None, None) -> "."
  | (Some e, None) ->
      Printf.sprintf "%s@%s=%s" (hex_of_bytes e.ek) (dec_of_n e.ets) (match e.ev with None -> "~" | Some v -> hex_of_bytes v)

let show_err = function UAF -> "UAF" | ENOENT -> "ENOENT" | BadEvent -> "BAD"

let big_fuel : nat = let rec go acc k = if k = 0 then acc else go (S acc) (k - 1) in go O 1000000
let cfg = Stdlib.ref { cf_iter_owns = true; cf_holds_ver = true; cf_cache = false; cf_fuel = big_fuel }
let st = Stdlib.ref (minit N0)

(* how many events of the history the reachability theorem's acceptance predicate (Model.acc_ev:
   batches without a repeated key, flush after the writers published, installs that are well formed
   and invent nothing) accepts / rejects *)
let accepted = Stdlib.ref 0
let rejected = Stdlib.ref 0
let ev (e : event) : outcome =
  if acc_ev !st e then incr accepted else incr rejected;
  let (s', o) = mstep !cfg !st e in
  st := s'; o

let ids_of (t : string) (all : unit -> n list) : n list =
  if t = "*" then all () else List.map n_of_dec (split ',' t)

let words s = String.split_on_char ' ' s |> List.filter (fun x -> x <> "")

let handle (line : string) : string =
  match words line with
  | "H" :: seq :: io :: hv :: ca :: _ ->
      cfg := { cf_iter_owns = (io = "1"); cf_holds_ver = (hv = "1"); cf_cache = (ca = "1"); cf_fuel = big_fuel };
      st := minit (n_of_dec seq); "H ok"
  | "W" :: b :: _ ->
      let kvs = List.map (fun kv ->
        let i = String.index kv '=' in
        let k = String.sub kv 0 i and v = String.sub kv (i + 1) (String.length kv - i - 1) in
        (bytes_of_hex k, (if v = "~" then None else Some (bytes_of_hex v)))) (split ',' b) in
      (match ev (EWrite kvs) with OErr e -> "W " ^ show_err e | _ -> "W ok")
  | "R" :: _ -> (match ev ERollover with OErr e -> "R " ^ show_err e | _ -> "R ok")
  | "F" :: fid :: _ ->
      let ents = match (!st).ms_imm with Some m -> look_of !st m | None -> [] in
      (match ev (EFlushDone (n_of_dec fid)) with
       | OErr e -> "F " ^ show_err e
       | _ -> "F " ^ String.concat "," (List.map show_ent ents))
  | "I" :: lv :: _ -> (match ev (EInstall (parse_levels lv)) with OErr e -> "I " ^ show_err e | _ -> "I ok")
  | "U" :: t :: _ ->
      let fs = ids_of t (fun () -> List.map (fun d -> d.d_id) (!st).ms_disk) in
      ignore (ev (EUnlinkTrash fs)); "U ok"
  | "E" :: t :: _ ->
      let fs = ids_of t (fun () -> (!st).ms_cache) in
      ignore (ev (ECacheEvict fs)); "E ok"
  | "O" :: cid :: lo :: hi :: _ ->
      (* before the step: do the hypotheses of the stability theorems hold here (open_wfb: scan_wfb + fuel;
         open_tsb: nothing in the store is newer than the sequence numbers handed out), and is the
         composed specification the contents-based one? *)
      let l = parse_bound lo and h = parse_bound hi in
      let wf = open_wfb !cfg !st l h in
      let same = (open_list !st l h = scan_spec !st l h) in
      let ts = open_tsb !st in
      let tail = Printf.sprintf " wf=%d eq=%d ts=%d" (if wf then 1 else 0) (if same then 1 else 0) (if ts then 1 else 0) in
      (match ev (EOpen (n_of_dec cid, l, h)) with
       | OErr e -> "O " ^ show_err e ^ tail
       | OObs o -> "O " ^ show_obs o ^ tail
       | ONone -> "O ?")
  | "S" :: cid :: prog :: _ ->
      let c = n_of_dec cid in
      let rec go acc = function
        | [] -> List.rev acc
        | o :: r ->
            (match ev (EStep (c, parse_op o)) with
             | OErr e -> List.rev (show_err e :: acc)
             | OObs (kv, Some f) -> List.rev (show_obs (kv, Some f) :: acc)
             | OObs ob -> go (show_obs ob :: acc) r
             | ONone -> List.rev ("?" :: acc)) in
      "S " ^ String.concat " " (go [] (split ',' prog))
  | "X" :: cid :: _ -> (match ev (EClose (n_of_dec cid)) with OErr e -> "X " ^ show_err e | _ -> "X ok")
  | "L" :: _ ->
      let ids p = List.filter_map (fun d -> if p d then Some (int_of_n d.d_id) else None) (!st).ms_disk
                  |> List.sort compare |> List.map string_of_int |> String.concat "," in
      Printf.sprintf "L sst=%s trash=%s" (ids (fun d -> d.d_sst)) (ids (fun d -> d.d_trash))
  | "Q" :: lo :: hi :: _ ->
      "Q " ^ String.concat " " (List.map (fun e -> show_obs (Some e, None)) (scan_spec !st (parse_bound lo) (parse_bound hi)))
  | "A" :: _ -> Printf.sprintf "A accepted=%d rejected=%d" !accepted !rejected
  | "M" :: _ ->
      "M " ^ String.concat " " (List.map (fun m ->
        Printf.sprintf "%d:%d:%d:%d:%d" (int_of_n m.mt_id) (int_of_nat m.mt_store) (int_of_nat m.mt_iters)
          (if m.mt_freed then 1 else 0) (List.length m.mt_ents)) (!st).ms_mts)
  | _ -> "? " ^ line

let () =
  try
    while true do
      let line = input_line stdin in
      let out = try handle line with ex -> "EXC " ^ Printexc.to_string ex in
      print_endline out
    done
  with End_of_file -> ()
