(* mx_gc: runs the extracted Gc model on cases read from stdin (one per line).
   gc POLAST NOW e1 .. en      -> G KEYHEX@TS ...         (collect_literal, checked = collect; G FUEL if out of fuel)
   spec POLAST NOW e1 .. en    -> G KEYHEX@TS ...         (kr of gc_spec: the executable spec)
   walk POLAST e1 .. en        -> W OK w=<entries> d=<entries> | W OUTOFSYNC   (gc_walk_lists)
   dispatch NINPUTS UPPER      -> D move|gc|rewrite
   POLAST: v<dec> | t<dec> | a(p,..) | l(p,..)      entry: KEYHEX@TS=VALHEX | KEYHEX@TS~ *)
open Gen_gc

let rec pos_of_int (i : int) : positive =
  if i = 1 then XH else if i land 1 = 0 then XO (pos_of_int (i lsr 1)) else XI (pos_of_int (i lsr 1))
let n_of_int (i : int) : n = if i = 0 then N0 else Npos (pos_of_int i)
let rec int_of_pos = function XH -> 1 | XO p -> 2 * int_of_pos p | XI p -> 2 * int_of_pos p + 1
let int_of_n = function N0 -> 0 | Npos p -> int_of_pos p

let ten = n_of_int 10
(* decimal <-> N through the extracted arithmetic (values up to 2^64-1 do not fit an OCaml int) *)
let n_of_dec (s : string) : n =
  let r = ref N0 in
  String.iter (fun c ->
    if c < '0' || c > '9' then failwith ("bad number " ^ s);
    r := N.add (N.mul !r ten) (n_of_int (Char.code c - 48))) s;
  !r
let dec_of_n (x : n) : string =
  if x = N0 then "0" else begin
    let b = Buffer.create 20 in
    let rec go x acc = if x = N0 then acc else
      let (q, r) = N.div_eucl x ten in go q (string_of_int (int_of_n r) :: acc) in
    List.iter (Buffer.add_string b) (go x []); Buffer.contents b
  end

let bytes_of_hex (s : string) : n list =
  let l = String.length s / 2 in
  List.init l (fun i -> n_of_int (int_of_string ("0x" ^ String.sub s (2 * i) 2)))
let hex_of_bytes (l : n list) : string =
  String.concat "" (List.map (fun c -> Printf.sprintf "%02x" (int_of_n c)) l)

let parse_entry (t : string) : entry =
  let at = String.index t '@' in
  let key = bytes_of_hex (String.sub t 0 at) in
  let rest = String.sub t (at + 1) (String.length t - at - 1) in
  if rest <> "" && rest.[String.length rest - 1] = '~' then
    { ekey = key; ets = n_of_dec (String.sub rest 0 (String.length rest - 1)); evalue = None }
  else begin
    let eq = String.index rest '=' in
    { ekey = key; ets = n_of_dec (String.sub rest 0 eq);
      evalue = Some (bytes_of_hex (String.sub rest (eq + 1) (String.length rest - eq - 1))) }
  end

let show_entry (e : entry) : string =
  match e.evalue with
  | Some v -> Printf.sprintf "%s@%s=%s" (hex_of_bytes e.ekey) (dec_of_n e.ets) (hex_of_bytes v)
  | None -> Printf.sprintf "%s@%s~" (hex_of_bytes e.ekey) (dec_of_n e.ets)
let show_kr ((k, ts) : keyref) : string = Printf.sprintf "%s@%s" (hex_of_bytes k) (dec_of_n ts)
let show_list f l = if l = [] then "." else String.concat "," (List.map f l)

let pos_of_dec s = match n_of_dec s with Npos p -> p | N0 -> failwith "zero in policy"

(* recursive descent over the prefix AST syntax *)
let parse_policy (s : string) : policy =
  let i = ref 0 in
  let n = String.length s in
  let number () =
    let st = !i in
    while !i < n && s.[!i] >= '0' && s.[!i] <= '9' do incr i done;
    pos_of_dec (String.sub s st (!i - st)) in
  let rec pol () : policy =
    let c = s.[!i] in
    incr i;
    match c with
    | 'v' -> PVersions (number ())
    | 't' -> PExpires (number ())
    | 'a' | 'l' ->
        if s.[!i] <> '(' then failwith "expected (";
        incr i;
        let kids = ref [] in
        if s.[!i] = ')' then incr i
        else begin
          let fin = ref false in
          while not !fin do
            kids := pol () :: !kids;
            if s.[!i] = ',' then incr i
            else if s.[!i] = ')' then (incr i; fin := true)
            else failwith "expected , or )"
          done
        end;
        if c = 'a' then PAny (List.rev !kids) else PAll (List.rev !kids)
    | _ -> failwith ("bad policy: " ^ s) in
  let p = pol () in
  if !i <> n then failwith ("trailing policy text: " ^ s);
  p

let () =
  try
    while true do
      let line = input_line stdin in
      let t = String.split_on_char ' ' (String.trim line) |> List.filter (fun x -> x <> "") in
      match t with
      | [] -> print_endline ""
      | "gc" :: p :: now :: es ->
          (* the literal transcription is what is compared with the Rust; the merged model must
             agree with it (Proofs_Literal.v) *)
          let pol = parse_policy p and ents = List.map parse_entry es and nw = n_of_dec now in
          let a = collect_literal pol ents nw and b = collect pol ents nw in
          if a <> b then print_endline "G LITERAL-VS-MERGED-MISMATCH" else
          (match a with
           | Some l -> print_endline (String.concat " " ("G" :: List.map show_kr l))
           | None -> print_endline "G FUEL")
      | "spec" :: p :: now :: es ->
          let l = gc_spec (parse_policy p) (n_of_dec now) (List.map parse_entry es) in
          print_endline (String.concat " " ("G" :: List.map (fun e -> show_kr (kr e)) l))
      | "walk" :: p :: es ->
          (match gc_walk_lists (parse_policy p) (List.map parse_entry es) with
           | WOk (w, d) -> Printf.printf "W OK w=%s d=%s\n" (show_list show_entry w) (show_list show_entry d)
           | WOutOfSync -> print_endline "W OUTOFSYNC")
      | ["dispatch"; a; b] ->
          print_endline (match dispatch (n_of_dec a) (n_of_dec b) with
            | KMove -> "D move" | KGc -> "D gc" | KRewrite -> "D rewrite")
      | _ -> failwith ("bad case: " ^ line)
    done
  with End_of_file -> ()
