(* mx_wire: runs the extracted Wire model (run_op) on cases read from stdin, one per line, and
   prints one line per case in the format of harness/src/bin/c15.rs.
     enc SCHEMA ; VAL | dec SCHEMA ; HEX | repack SCHEMA ; HEX | v64d HEX | v64e N | tagd HEX | tage NUM WT | zz I | uzz N
     sc KIND VAL | scd KIND HEX
   SCHEMA :=  S ( FLD* ) | E ( VAR* ) | R SCHEMA SCHEMA
   FLD    :=  NUM (p|o|r) TY          TY := scalar-name | M SCHEMA
   VAR    :=  u NUM | o NUM TY | n NUM ( FLD* )
   VAL    :=  INT | xHEX | ( VAL* ) | #K VAL *)
open Gen_wire

(* ---- numbers: decimal strings <-> positive / N / Z (no bignum library needed) *)
let rec pos_bits_msb (p : positive) (acc : int list) : int list =
  match p with XH -> 1 :: acc | XO q -> pos_bits_msb q (0 :: acc) | XI q -> pos_bits_msb q (1 :: acc)
let dec_double_add (d : int list) (bit : int) : int list =
  let rec go d carry = match d with
    | [] -> if carry > 0 then [carry] else []
    | x :: r -> let v = 2 * x + carry in (v mod 10) :: go r (v / 10) in
  go d bit
let string_of_pos (p : positive) : string =
  let d = List.fold_left dec_double_add [] (pos_bits_msb p []) in
  String.concat "" (List.rev_map string_of_int d)
let string_of_n = function N0 -> "0" | Npos p -> string_of_pos p
let string_of_z = function Z0 -> "0" | Zpos p -> string_of_pos p | Zneg p -> "-" ^ string_of_pos p

let pos_of_dec (s : string) : positive option =
  let ds = List.init (String.length s) (fun i ->
    let c = s.[i] in if c < '0' || c > '9' then failwith ("bad int " ^ s) else Char.code c - 48) in
  let div2 ds =
    let carry = ref 0 in
    let q = List.map (fun d -> let v = !carry * 10 + d in carry := v mod 2; v / 2) ds in
    (q, !carry) in
  let rec go ds =
    if List.for_all (fun d -> d = 0) ds then None
    else
      let (q, r) = div2 ds in
      match go q with
      | None -> Some XH
      | Some p -> Some (if r = 1 then XI p else XO p) in
  go ds
let n_of_dec s = match pos_of_dec s with None -> N0 | Some p -> Npos p
let z_of_dec s =
  if String.length s > 0 && s.[0] = '-' then
    (match pos_of_dec (String.sub s 1 (String.length s - 1)) with None -> Z0 | Some p -> Zneg p)
  else (match pos_of_dec s with None -> Z0 | Some p -> Zpos p)

let rec pos_of_int (i : int) : positive =
  if i = 1 then XH else if i land 1 = 0 then XO (pos_of_int (i lsr 1)) else XI (pos_of_int (i lsr 1))
let n_of_int (i : int) : n = if i = 0 then N0 else Npos (pos_of_int i)
let rec int_of_pos = function XH -> 1 | XO p -> 2 * int_of_pos p | XI p -> 2 * int_of_pos p + 1
let int_of_n = function N0 -> 0 | Npos p -> int_of_pos p
let rec nat_of_int i = if i = 0 then O else S (nat_of_int (i - 1))
let rec int_of_nat = function O -> 0 | S n -> 1 + int_of_nat n

let bytes_of_hex (s : string) : n list =
  let l = String.length s / 2 in
  List.init l (fun i -> n_of_int (int_of_string ("0x" ^ String.sub s (2 * i) 2)))
let hex_of_bytes (l : n list) : string =
  String.concat "" (List.map (fun b -> Printf.sprintf "%02x" (int_of_n b)) l)

(* ---- token streams *)
type toks = { t : string array; mutable i : int }
let toks_of (s : string) : toks =
  { t = Array.of_list (List.filter (fun x -> x <> "") (String.split_on_char ' ' s)); i = 0 }
let peek ts = if ts.i < Array.length ts.t then ts.t.(ts.i) else ""
let next ts = let x = peek ts in ts.i <- ts.i + 1; x
let expect ts s = let x = next ts in if x <> s then failwith ("expected " ^ s ^ " got " ^ x)

let scalar_of_name = function
  | "int32" -> Int32 | "int64" -> Int64 | "uint32" -> UInt32 | "uint64" -> UInt64
  | "sint32" -> SInt32 | "sint64" -> SInt64 | "fixed32" -> Fixed32 | "fixed64" -> Fixed64
  | "sfixed32" -> SFixed32 | "sfixed64" -> SFixed64 | "float" -> Float | "double" -> Double
  | "Bool" -> Bool_ | "bytes" -> Bytes | "bytes16" -> Bytes16 | "bytes32" -> Bytes32
  | "bytes64" -> Bytes64 | "string" -> String_ | "string_path" -> StringPath
  | s -> failwith ("bad scalar " ^ s)

let rec parse_msg ts : msg =
  match next ts with
  | "S" -> expect ts "("; let fs = parse_flds ts in MStruct fs
  | "E" -> expect ts "("; let vs = parse_vars ts in MEnum vs
  | "R" -> let t = parse_msg ts in let e = parse_msg ts in MResult (t, e)
  | x -> failwith ("bad schema " ^ x)
and parse_ty ts : ty =
  match next ts with
  | "M" -> TMsg (parse_msg ts)
  | s -> TSc (scalar_of_name s)
and parse_flds ts : flds =
  if peek ts = ")" then (ignore (next ts); FNil)
  else begin
    let num = n_of_dec (next ts) in
    let c = (match next ts with "p" -> CPlain | "o" -> COpt | "r" -> CRep | x -> failwith ("bad container " ^ x)) in
    let t = parse_ty ts in
    let rest = parse_flds ts in
    FCons (num, c, t, rest)
  end
and parse_vars ts : vars =
  match next ts with
  | ")" -> VNil
  | "u" -> let num = n_of_dec (next ts) in let rest = parse_vars ts in VUnit (num, rest)
  | "o" -> let num = n_of_dec (next ts) in let t = parse_ty ts in let rest = parse_vars ts in VOne (num, t, rest)
  | "n" -> let num = n_of_dec (next ts) in expect ts "("; let fs = parse_flds ts in
           let rest = parse_vars ts in VNamed (num, fs, rest)
  | x -> failwith ("bad variant " ^ x)

let rec parse_val ts : val0 =
  let t = next ts in
  if t = "(" then begin
    let rec go acc = if peek ts = ")" then (ignore (next ts); List.rev acc) else go (parse_val ts :: acc) in
    VL (go [])
  end
  else if String.length t > 0 && t.[0] = 'x' then VB (bytes_of_hex (String.sub t 1 (String.length t - 1)))
  else if String.length t > 0 && t.[0] = '#' then begin
    let k = int_of_string (String.sub t 1 (String.length t - 1)) in
    let v = parse_val ts in VV (nat_of_int k, v)
  end
  else VZ (z_of_dec t)

let rec show_val (b : Buffer.t) (v : val0) : unit =
  match v with
  | VZ z -> Buffer.add_string b (string_of_z z); Buffer.add_char b ' '
  | VB bs -> Buffer.add_char b 'x'; Buffer.add_string b (hex_of_bytes bs); Buffer.add_char b ' '
  | VL l -> Buffer.add_string b "( "; List.iter (show_val b) l; Buffer.add_string b ") "
  | VV (k, p) -> Buffer.add_string b (Printf.sprintf "#%d " (int_of_nat k)); show_val b p

let err_name = function
  | EBufferTooShort -> "buffer-too-short" | EVarintOverflow -> "varint-overflow"
  | EUnsignedOverflow -> "unsigned-overflow" | ESignedOverflow -> "signed-overflow"
  | ETagTooLarge -> "tag-too-large" | EInvalidFieldNumber -> "invalid-field-number"
  | EUnhandledWireType -> "unhandled-wire-type" | EWrongLength -> "wrong-length"
  | EStringEncoding -> "string-encoding" | EUnknownDiscriminant -> "unknown-discriminant"

let show_res (f : 'a -> string) (r : 'a res) : string =
  match r with Ok a -> "ok " ^ f a | Err e -> "err " ^ err_name e | Panic -> "PANIC" | OutOfFuel -> "OUT-OF-FUEL"

let show_val_rest ((v, rest) : val0 * n list) : string =
  let b = Buffer.create 64 in show_val b v; Buffer.add_string b "rest="; Buffer.add_string b (hex_of_bytes rest);
  Buffer.contents b

let wt_num w = int_of_n (wt_bits w)

let show_out (o : out) : string =
  match o with
  | RIllTyped -> "ILL-TYPED"
  | RBytes (Ok bs, sz, rt) ->
      hex_of_bytes bs ^ " sz=" ^ string_of_n sz ^
      (match rt with None -> "" | Some r -> " rt=" ^ show_res show_val_rest r)
  | RBytes (Panic, _, _) -> "PANIC"
  | RBytes (Err e, _, _) -> "err " ^ err_name e
  | RBytes (OutOfFuel, _, _) -> "OUT-OF-FUEL"
  | RVal r -> show_res show_val_rest r
  | RNum r -> show_res (fun (x, rest) -> string_of_n x ^ " rest=" ^ hex_of_bytes rest) r
  | RTag r -> show_res (fun ((num, wt), rest) ->
                Printf.sprintf "%s %d rest=%s" (string_of_n num) (wt_num wt) (hex_of_bytes rest)) r
  | RInt z -> string_of_z z
  | RRepack r -> show_res (fun (bs, rest) -> hex_of_bytes bs ^ " rest=" ^ hex_of_bytes rest) r

let split_semi (s : string) : string * string =
  match String.index_opt s ';' with
  | Some i -> (String.sub s 0 i, String.sub s (i + 1) (String.length s - i - 1))
  | None -> (s, "")

let parse_op (line : string) : op =
  let line = String.trim line in
  let (opname, rest) = match String.index_opt line ' ' with
    | Some i -> (String.sub line 0 i, String.sub line (i + 1) (String.length line - i - 1))
    | None -> (line, "") in
  let first_tok s = let ts = toks_of s in next ts in
  let sval_of_val = function VZ z -> SZ z | VB b -> SB b | _ -> failwith "bad scalar value" in
  match opname with
  | "enc" -> let (a, b) = split_semi rest in OEnc (parse_msg (toks_of a), parse_val (toks_of b))
  | "dec" -> let (a, b) = split_semi rest in ODec (parse_msg (toks_of a), bytes_of_hex (first_tok b))
  | "repack" -> let (a, b) = split_semi rest in ORepack (parse_msg (toks_of a), bytes_of_hex (first_tok b))
  | "v64d" -> OV64Dec (bytes_of_hex (first_tok rest))
  | "v64e" -> OV64Enc (n_of_dec (first_tok rest))
  | "tagd" -> OTagDec (bytes_of_hex (first_tok rest))
  | "tage" -> let ts = toks_of rest in let a = n_of_dec (next ts) in let b = n_of_dec (next ts) in OTagEnc (a, b)
  | "zz" -> OZigzag (z_of_dec (first_tok rest))
  | "uzz" -> OUnzigzag (n_of_dec (first_tok rest))
  | "sc" -> let ts = toks_of rest in let k = scalar_of_name (next ts) in OScEnc (k, sval_of_val (parse_val ts))
  | "scd" -> let ts = toks_of rest in let k = scalar_of_name (next ts) in OScDec (k, bytes_of_hex (next ts))
  | x -> failwith ("bad op " ^ x)

let () =
  try
    while true do
      let line = input_line stdin in
      if String.trim line = "" then print_endline ""
      else print_endline (try show_out (run_op (parse_op line)) with Failure m -> "DRIVER-ERROR " ^ m)
    done
  with End_of_file -> ()
